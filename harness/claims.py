# Text of the claims per property (MANIFEST level_claimed / level_note / technique).
T = "bounded symbolic execution of the real code (Kani/CBMC/CaDiCaL)"
CLAIMS = {
 "C01": dict(
   text="Within the stated bounds the SAT solver found no input on which the scanners or one reader step differ from an independent reference tokenizer; steps compose by induction over an arbitrary reader state, so the number of constructs is unbounded while each construct is bounded (8-12 bytes for scanners, <=4 symbolic bytes after its opener for a step).",
   design_ref="DESIGN.md §5 C01", technique=T + ", single-step induction from an arbitrary reader state, differential vs reference tokenizer",
   note="Trusted: rustc/Kani codegen, CBMC, naive memchr model, cfg(kani) state-construction hook + representation invariant, reference tokenizer (validated against the repository corpus on every run). Bounded, not a proof."),
}
_NOTYET = "check not built yet in this session (work in progress; see DESIGN.md for the plan)"
NOT_APPLICABLE = {
 "C06": "needs the real deserializer over the real reader on attribute-bearing documents; even a concrete from_str does not finish symbolic execution in 12 min (DESIGN.md §2); escaping kernels are decided under C10/C13",
 "C14": "both entry points run the real reader under the deserializer (not encodable within reach, DESIGN.md §2); chunking independence is decided under C02",
}
for k in ["C02","C03","C04","C05","C07","C08","C09","C10","C11","C12","C13","C15","C16","C17","C18","C19","C20"]:
    NOT_APPLICABLE.setdefault(k, _NOTYET)
