//! Native replayer for the encoding harness crate: replay run <harness> <hex raw> | list
use qx_harness_enc::common::Outcome;
use std::panic;

fn unhex(s: &str) -> Vec<u8> {
    let s: Vec<u8> = s.bytes().filter(|b| b.is_ascii_hexdigit()).collect();
    s.chunks(2).map(|c| u8::from_str_radix(std::str::from_utf8(c).unwrap(), 16).unwrap()).collect()
}

fn main() {
    let args: Vec<String> = std::env::args().collect();
    match args.get(1).map(|s| s.as_str()) {
        Some("list") => {
            for (n, k, _) in qx_harness_enc::table::registry() {
                println!("{} {}", n, k);
            }
        }
        Some("run") => {
            let name = &args[2];
            let mut raw = unhex(&args[3]);
            let reg = qx_harness_enc::table::registry();
            let Some((_, k, f)) = reg.iter().find(|(n, _, _)| n == name) else {
                eprintln!("unknown harness {}", name);
                std::process::exit(2);
            };
            raw.resize(*k, 0);
            let f = *f;
            panic::set_hook(Box::new(|_| {}));
            match panic::catch_unwind(move || f(&raw)) {
                Ok(Outcome::Pass) => println!("PASS"),
                Ok(Outcome::Skip) => println!("SKIP"),
                Ok(Outcome::Fail(l)) => {
                    println!("FAIL {}", l);
                    std::process::exit(1);
                }
                Err(e) => {
                    let msg = if let Some(s) = e.downcast_ref::<String>() { s.clone() } else if let Some(s) = e.downcast_ref::<&str>() { s.to_string() } else { "?".into() };
                    println!("PANIC {}", msg);
                    std::process::exit(1);
                }
            }
        }
        _ => std::process::exit(2),
    }
}
