//! Solver-based checking harnesses for quick-xml with the `encoding` feature (C17).
#![allow(clippy::all)]
#![allow(unused_variables, unused_assignments, unused_mut, dead_code, unused_imports)]

#[path = "../../core/src/common.rs"]
pub mod common;
pub mod enc;
pub mod table;
