//! C17 (the part within reach): encoding sniffing table, BOM removal, UTF-8 strictness.

use crate::common::*;
use crate::{ensure, forall_idx, require, witness};
use quick_xml::events::Event;
use quick_xml::reader::Reader;

/// K1: `detect_encoding` on every 4-byte prefix (and shorter inputs) == the table of XML appendix F
/// restricted to what the crate documents. raw: [len, b0..b3]
pub fn check_detect(raw: &[u8]) -> Outcome {
    check_detect_n::<4>(raw)
}

/// Same with up to N bytes of input (bytes after the fourth must not matter). raw: [len, b0..b(N-1)]
pub fn check_detect_n<const N: usize>(raw: &[u8]) -> Outcome {
    let len = raw[0] as usize;
    require!(len <= N);
    let b = &raw[1..1 + len];
    let got = quick_xml::encoding::detect_encoding(b);
    // reference
    let sw = |p: &[u8]| -> bool {
        if b.len() < p.len() {
            return false;
        }
        let mut i = 0;
        while i < p.len() {
            if b[i] != p[i] {
                return false;
            }
            i += 1;
        }
        true
    };
    let want: Option<(u8, usize)> = if sw(&[0xFE, 0xFF]) {
        Some((1, 2)) // UTF-16BE
    } else if sw(&[0xFF, 0xFE]) {
        Some((2, 2)) // UTF-16LE
    } else if sw(&[0xEF, 0xBB, 0xBF]) {
        Some((0, 3)) // UTF-8
    } else if sw(&[0x00, b'<', 0x00, b'?']) {
        Some((1, 0))
    } else if sw(&[b'<', 0x00, b'?', 0x00]) {
        Some((2, 0))
    } else if sw(&[b'<', b'?', b'x', b'm']) {
        Some((0, 0))
    } else {
        None
    };
    match (got, want) {
        (None, None) => {}
        (Some((e, n)), Some((code, wn))) => {
            let ecode = if e == encoding_rs::UTF_8 {
                0
            } else if e == encoding_rs::UTF_16BE {
                1
            } else if e == encoding_rs::UTF_16LE {
                2
            } else {
                9
            };
            ensure!(ecode == code && n == wn, "C17: byte order marks and signatures are recognised as documented");
        }
        _ => {
            ensure!(false, "C17: an encoding is detected exactly for the documented marks and signatures");
        }
    }
    witness!(matches!(want, Some((0, 3))), "utf-8 bom");
    witness!(matches!(want, Some((2, 0))), "utf-16le signature");
    Outcome::Pass
}

/// K2: a UTF-8 byte order mark never appears in the first event and is counted in the position.
/// raw: [len, bytes[N]] ; input = EF BB BF + bytes
pub fn check_bom_removed<const N: usize, const P: usize>(raw: &[u8]) -> Outcome {
    let len = raw[0] as usize;
    require!(len <= N);
    let mut input = [0u8; P];
    input[0] = 0xEF;
    input[1] = 0xBB;
    input[2] = 0xBF;
    let mut i = 0;
    while i < N {
        input[3 + i] = raw[1 + i];
        i += 1;
    }
    let doc = &input[..3 + len];
    let mut r = Reader::from_reader(doc);
    let ev = r.read_event();
    if let Ok(e) = &ev {
        let c: &[u8] = e;
        ensure!(!(c.len() >= 3 && c[0] == 0xEF && c[1] == 0xBB && c[2] == 0xBF), "C17: a UTF-8 byte order mark never appears in an event");
        if let Event::Text(_) = e {
            // the text is what follows the mark
            ensure!(c.len() >= 1 && c[0] == raw[1], "C17: the first event starts after the byte order mark");
        }
    }
    ensure!(r.decoder().encoding() == encoding_rs::UTF_8, "C17: a UTF-8 byte order mark selects UTF-8");
    witness!(matches!(ev, Ok(Event::Text(_))), "text after bom");
    core::mem::forget(ev);
    core::mem::forget(r);
    Outcome::Pass
}

/// K3: the refinement table of `EncodingRef` (which of implicit / explicit / BOM / declaration may still be
/// overridden) equals the documented automaton: Implicit and BomDetected can be refined, Explicit (a reader
/// built from a string) and XmlDetected cannot; the wrapped encoding is returned unchanged.
/// raw: [kind, which]
pub fn check_refine_table(raw: &[u8]) -> Outcome {
    let kind = raw[0];
    require!(kind <= 3);
    let enc: &'static encoding_rs::Encoding = match raw[1] & 3 {
        0 => encoding_rs::UTF_8,
        1 => encoding_rs::UTF_16LE,
        2 => encoding_rs::UTF_16BE,
        _ => encoding_rs::WINDOWS_1251,
    };
    let (refinable, got) = quick_xml::reader::verif_encoding_ref(kind, enc);
    let want = kind == 0 || kind == 2;
    ensure!(refinable == want, "C17: only an implicit or BOM-detected encoding can be overridden; an explicit (from_str) or declared one is final");
    ensure!(got == enc, "C17: the active encoding is the one recorded by the winning source");
    witness!(kind == 1 && !refinable, "explicit is final");
    witness!(kind == 2 && refinable, "bom can be refined");
    Outcome::Pass
}
