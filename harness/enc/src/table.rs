//! Harness table of the encoding crate.
use crate::common::Outcome;
use crate::enc::*;

macro_rules! harnesses {
    ($( $(#[$attr:meta])* $name:ident, unwind = $u:literal, raw = $k:literal, $f:expr; )*) => {
        $(
            #[cfg(kani)]
            #[kani::proof]
            #[kani::unwind($u)]
            $(#[$attr])*
            fn $name() {
                let raw: [u8; $k] = kani::any();
                let f: fn(&[u8]) -> Outcome = $f;
                let _ = f(&raw);
            }
        )*
        pub fn registry() -> Vec<(&'static str, usize, fn(&[u8]) -> Outcome)> {
            vec![ $( (stringify!($name), $k, $f as fn(&[u8]) -> Outcome), )* ]
        }
    };
}

harnesses! {
    c17_detect, unwind = 6, raw = 5, |r| check_detect(r);
    c17_detect_n7, unwind = 9, raw = 8, |r| check_detect_n::<7>(r);
    c17_refine_table, unwind = 4, raw = 2, |r| check_refine_table(r);
    c17_bom_n2, unwind = 8, raw = 3, |r| check_bom_removed::<2, 5>(r);
}
