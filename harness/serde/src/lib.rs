//! Solver-based checking harnesses for quick-xml's serde layer (features serialize + overlapped-lists).
#![allow(clippy::all)]
#![allow(unused_variables, unused_assignments, unused_mut, dead_code, unused_imports)]

#[path = "../../core/src/common.rs"]
pub mod common;
pub mod wf;
pub mod se;
pub mod de;
pub mod table;
