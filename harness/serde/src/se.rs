//! C13: serializer-side obligations.

use crate::common::*;
use crate::wf::*;
use crate::{ensure, forall_idx, require, witness};
use serde::ser::{SerializeMap, Serializer as _};
use serde::Serialize;

/// K1: a name the serializer accepts is an XML 1.1 Name. raw: [len, bytes[N]] (valid UTF-8 assumed)
pub fn check_xml_name<const N: usize>(raw: &[u8]) -> Outcome {
    let mut r = Raw::new(raw);
    let len = r.u8() as usize;
    let bytes: [u8; N] = r.arr();
    require!(len <= N);
    let b = &bytes[..len];
    let legal = is_xml_name(b);
    require!(legal.is_some()); // a &str is UTF-8
    let s = unsafe { core::str::from_utf8_unchecked(b) };
    let accepted = quick_xml::se::verif::xml_name_ok(s);
    if accepted {
        ensure!(legal == Some(true), "C13: every accepted element or attribute name is a legal XML name");
    }
    witness!(accepted && len == N, "long name accepted");
    witness!(!accepted && len > 0, "name rejected");
    Outcome::Pass
}

/// K2: escaping of values: no string payload can introduce markup.
/// raw: [c, target, level]; `list`: escape_list (text / attribute value) or escape_item (xs:list item)
pub fn check_se_escape(raw: &[u8], list: bool, fixed: Option<(u8, u8)>) -> Outcome {
    let c = raw[0];
    let (target, level) = match fixed {
        Some(tl) => tl,
        None => (raw[1] % 3, raw[2] % 3),
    };
    require!(c < 0x80);
    let buf = [c];
    let s = unsafe { core::str::from_utf8_unchecked(&buf) };
    let out = if list { quick_xml::se::verif::list(s, target, level) } else { quick_xml::se::verif::item(s, target, level) };
    let o = out.as_bytes();
    ensure!(o.len() >= 1, "C13: escaping never loses a character");
    if o.len() == 1 {
        ensure!(o[0] == c, "C13: an unescaped character is unchanged");
        ensure!(c != b'<' && c != b'&', "C13: '<' and '&' are always escaped");
        ensure!(!(target == 1 && c == b'"') && !(target == 2 && c == b'\''), "C13: the active quote is always escaped");
        if !list {
            ensure!(c != b' ' && c != b'\t' && c != b'\n' && c != b'\r', "C13: list items never contain raw whitespace");
        }
    } else {
        // a reference: `&...;` without markup characters inside
        ensure!(o[0] == b'&' && o[o.len() - 1] == b';', "C13: a replaced character becomes a reference");
        forall_idx!(j < o.len() => {
            if j > 0 {
                ensure!(o[j] != b'<' && o[j] != b'&' && o[j] != b'"' && o[j] != b'\'' && o[j] != b' ', "C13: references contain no markup characters");
            }
        });
        // and it is the reference OF that character
        let want: &[u8] = match c {
            b'<' => b"&lt;",
            b'>' => b"&gt;",
            b'&' => b"&amp;",
            b'\'' => b"&apos;",
            b'"' => b"&quot;",
            b'\t' => b"&#9;",
            b'\n' => b"&#10;",
            b'\r' => b"&#13;",
            b' ' => b"&#32;",
            _ => b"",
        };
        ensure!(o.len() == want.len(), "C13: the reference denotes the replaced character");
        forall_idx!(j < want.len() => {
            ensure!(o[j] == want[j], "C13: the reference denotes the replaced character");
        });
    }
    witness!(o.len() > 1, "something escaped");
    core::mem::forget(out);
    Outcome::Pass
}

// ---- whole serializer on small types ------------------------------------------------------------

#[derive(Serialize)]
struct AttrText<'a> {
    #[serde(rename = "@a")]
    a: &'a str,
    #[serde(rename = "$text")]
    t: &'a str,
}

#[derive(Serialize)]
struct Nested<'a> {
    e: &'a str,
    #[serde(rename = "@b")]
    b: &'a str,
    inner: Inner<'a>,
}
#[derive(Serialize)]
struct Inner<'a> {
    f: &'a str,
}

#[derive(Serialize)]
struct Lists<'a> {
    #[serde(rename = "@l")]
    l: [&'a str; 2],
    item: [&'a str; 2],
}

#[derive(Serialize)]
enum Choice<'a> {
    A,
    B(&'a str),
    #[serde(rename = "$text")]
    T(&'a str),
}
#[derive(Serialize)]
struct Mixed<'a> {
    #[serde(rename = "$value")]
    v: [Choice<'a>; 2],
}

/// a map with one entry: the key becomes an element name
struct KV<'a>(&'a str, &'a str);
impl<'a> Serialize for KV<'a> {
    fn serialize<S: serde::Serializer>(&self, s: S) -> Result<S::Ok, S::Error> {
        let mut m = s.serialize_map(Some(1))?;
        m.serialize_entry(self.0, self.1)?;
        m.end()
    }
}

#[derive(Serialize)]
struct Unit;

fn run<T: Serialize>(root: Option<&str>, v: &T, level: u8, indent: bool, expand: bool) -> Result<String, quick_xml::SeError> {
    let mut out = String::new();
    let mut ser = quick_xml::se::Serializer::with_root(&mut out, root)?;
    ser.set_quote_level(match level % 3 {
        0 => quick_xml::se::QuoteLevel::Full,
        1 => quick_xml::se::QuoteLevel::Partial,
        _ => quick_xml::se::QuoteLevel::Minimal,
    });
    if indent {
        ser.indent(' ', 2);
    }
    ser.expand_empty_elements(expand);
    v.serialize(ser)?;
    Ok(out)
}

/// T: the serializer output is an error or lexically well-formed XML.
/// `ty`: which type; the ONE symbolic 7-bit byte `c` is placed in the position `pos` of that type,
/// the other strings are concrete hostile literals. raw: [c, level, flags]
pub fn check_se_type(raw: &[u8], ty: u8, pos: u8) -> Outcome {
    let c = raw[0];
    let level = raw[1];
    let indent = raw[2] & 1 != 0;
    let expand = raw[2] & 2 != 0;
    require!(c < 0x80);
    let cb = [c];
    let sym = unsafe { core::str::from_utf8_unchecked(&cb) };
    let h1 = "<&>";
    let h2 = "\"'";
    let res = match ty {
        0 => run(Some("r"), &AttrText { a: if pos == 0 { sym } else { h2 }, t: if pos == 1 { sym } else { h1 } }, level, indent, expand),
        1 => run(Some("r"), &Nested { e: if pos == 0 { sym } else { h1 }, b: if pos == 1 { sym } else { h2 }, inner: Inner { f: if pos == 2 { sym } else { "x" } } }, level, indent, expand),
        2 => run(Some("r"), &Lists { l: [if pos == 0 { sym } else { "a b" }, "<"], item: [if pos == 1 { sym } else { "&" }, ""] }, level, indent, expand),
        3 => run(Some("r"), &Mixed { v: [Choice::B(if pos == 0 { sym } else { "<" }), Choice::A] }, level, indent, expand),
        4 => run(Some("r"), &KV(if pos == 0 { sym } else { "k" }, if pos == 1 { sym } else { h1 }), level, indent, expand),
        5 => run(Some(sym), &Unit, level, indent, expand),
        _ => run(Some("r"), &Mixed { v: [Choice::T(if pos == 0 { sym } else { "&" }), Choice::A] }, level, indent, expand),
    };
    match &res {
        Ok(out) => {
            let v = scan(out.as_bytes());
            ensure!(v == Wf::Ok, "C13: serializer output is well-formed XML (no payload introduces markup, names are legal)");
        }
        Err(_) => {}
    }
    witness!(res.is_ok(), "serialized");
    witness!(res.is_err(), "rejected");
    core::mem::forget(res);
    Outcome::Pass
}
