//! Reference lexical well-formedness scanner for serializer output (no reader involved): tags
//! balanced and properly nested, names legal, attribute values quoted without a raw quote / `<`,
//! text without raw `<`, every `&` starts a reference. Also the XML 1.1 `Name` production.

pub fn is_name_start(c: u32) -> bool {
    c == ':' as u32
        || (c >= 'A' as u32 && c <= 'Z' as u32)
        || c == '_' as u32
        || (c >= 'a' as u32 && c <= 'z' as u32)
        || (c >= 0xC0 && c <= 0xD6)
        || (c >= 0xD8 && c <= 0xF6)
        || (c >= 0xF8 && c <= 0x2FF)
        || (c >= 0x370 && c <= 0x37D)
        || (c >= 0x37F && c <= 0x1FFF)
        || (c >= 0x200C && c <= 0x200D)
        || (c >= 0x2070 && c <= 0x218F)
        || (c >= 0x2C00 && c <= 0x2FEF)
        || (c >= 0x3001 && c <= 0xD7FF)
        || (c >= 0xF900 && c <= 0xFDCF)
        || (c >= 0xFDF0 && c <= 0xFFFD)
        || (c >= 0x10000 && c <= 0xEFFFF)
}

pub fn is_name_char(c: u32) -> bool {
    is_name_start(c)
        || c == '-' as u32
        || c == '.' as u32
        || (c >= '0' as u32 && c <= '9' as u32)
        || c == 0xB7
        || (c >= 0x300 && c <= 0x36F)
        || (c >= 0x203F && c <= 0x2040)
}

/// Decodes one UTF-8 scalar at `i`: (code point, length) or None if the bytes are not UTF-8.
pub fn decode(b: &[u8], i: usize) -> Option<(u32, usize)> {
    let c0 = b[i] as u32;
    if c0 < 0x80 {
        return Some((c0, 1));
    }
    let cont = |k: usize| -> Option<u32> {
        if i + k < b.len() && b[i + k] & 0xC0 == 0x80 {
            Some((b[i + k] & 0x3F) as u32)
        } else {
            None
        }
    };
    if c0 >= 0xC2 && c0 <= 0xDF {
        let c1 = cont(1)?;
        return Some((((c0 & 0x1F) << 6) | c1, 2));
    }
    if c0 >= 0xE0 && c0 <= 0xEF {
        let c1 = cont(1)?;
        let c2 = cont(2)?;
        let v = ((c0 & 0x0F) << 12) | (c1 << 6) | c2;
        if v < 0x800 || (v >= 0xD800 && v <= 0xDFFF) {
            return None;
        }
        return Some((v, 3));
    }
    if c0 >= 0xF0 && c0 <= 0xF4 {
        let c1 = cont(1)?;
        let c2 = cont(2)?;
        let c3 = cont(3)?;
        let v = ((c0 & 0x07) << 18) | (c1 << 12) | (c2 << 6) | c3;
        if v < 0x10000 || v > 0x10FFFF {
            return None;
        }
        return Some((v, 4));
    }
    None
}

/// `Some(true)`: `b` is an XML 1.1 Name; `Some(false)`: valid UTF-8 but not a Name; None: not UTF-8
pub fn is_xml_name(b: &[u8]) -> Option<bool> {
    let mut i = 0;
    let mut ok = b.len() > 0;
    let mut first = true;
    while i < b.len() {
        let (c, n) = decode(b, i)?;
        if first {
            if !is_name_start(c) {
                ok = false;
            }
            first = false;
        } else if !is_name_char(c) {
            ok = false;
        }
        i += n;
    }
    Some(ok)
}

fn ws(c: u8) -> bool {
    c == b' ' || c == b'\t' || c == b'\n' || c == b'\r'
}

/// name made of bytes that cannot end a name lexically; legality of the characters is checked by
/// `is_xml_name` on the slice
fn name_end(b: &[u8], mut i: usize) -> usize {
    while i < b.len() && !ws(b[i]) && b[i] != b'/' && b[i] != b'>' && b[i] != b'=' && b[i] != b'<' && b[i] != b'"' && b[i] != b'\'' && b[i] != b'&' {
        i += 1;
    }
    i
}

/// a reference `&name;` / `&#..;` starting at `i` (b[i] == '&'): index after the `;`
fn reference_end(b: &[u8], i: usize) -> Option<usize> {
    let mut j = i + 1;
    while j < b.len() && b[j] != b';' {
        let c = b[j];
        let ok = (c >= b'a' && c <= b'z') || (c >= b'A' && c <= b'Z') || (c >= b'0' && c <= b'9') || c == b'#';
        if !ok {
            return None;
        }
        j += 1;
    }
    if j >= b.len() || j == i + 1 {
        None
    } else {
        Some(j + 1)
    }
}

#[derive(Clone, Copy, Debug, PartialEq, Eq)]
pub enum Wf {
    Ok,
    /// label of the first violated rule
    Bad(&'static str),
}

/// Lexical well-formedness of a serialized document (elements, attributes, text, references).
pub fn scan(b: &[u8]) -> Wf {
    let mut stack = [(0usize, 0usize); 6];
    let mut depth = 0usize;
    let mut i = 0;
    while i < b.len() {
        let c = b[i];
        if c == b'&' {
            match reference_end(b, i) {
                Some(j) => i = j,
                None => return Wf::Bad("raw & in text"),
            }
            continue;
        }
        if c != b'<' {
            i += 1;
            continue;
        }
        // markup
        if i + 1 >= b.len() {
            return Wf::Bad("document ends inside markup");
        }
        if b[i + 1] == b'/' {
            let s = i + 2;
            let e = name_end(b, s);
            let mut j = e;
            while j < b.len() && ws(b[j]) {
                j += 1;
            }
            if j >= b.len() || b[j] != b'>' {
                return Wf::Bad("end tag not closed");
            }
            if depth == 0 {
                return Wf::Bad("end tag without start tag");
            }
            let (ts, te) = stack[depth - 1];
            if te - ts != e - s {
                return Wf::Bad("end tag does not match start tag");
            }
            let mut k = 0;
            while k < e - s {
                if b[ts + k] != b[s + k] {
                    return Wf::Bad("end tag does not match start tag");
                }
                k += 1;
            }
            depth -= 1;
            i = j + 1;
            continue;
        }
        if b[i + 1] == b'?' || b[i + 1] == b'!' {
            return Wf::Bad("unexpected declaration / comment in serializer output");
        }
        let s = i + 1;
        let e = name_end(b, s);
        if is_xml_name(&b[s..e]) != Some(true) {
            return Wf::Bad("element name is not an XML name");
        }
        let mut j = e;
        loop {
            let had_ws = j < b.len() && ws(b[j]);
            while j < b.len() && ws(b[j]) {
                j += 1;
            }
            if j >= b.len() {
                return Wf::Bad("start tag not closed");
            }
            if b[j] == b'>' {
                if depth >= 6 {
                    return Wf::Bad("nesting deeper than the scanner's stack");
                }
                stack[depth] = (s, e);
                depth += 1;
                i = j + 1;
                break;
            }
            if b[j] == b'/' {
                if j + 1 >= b.len() || b[j + 1] != b'>' {
                    return Wf::Bad("stray / in start tag");
                }
                i = j + 2;
                break;
            }
            if !had_ws {
                return Wf::Bad("attribute not separated by whitespace");
            }
            let ks = j;
            let ke = name_end(b, ks);
            if is_xml_name(&b[ks..ke]) != Some(true) {
                return Wf::Bad("attribute name is not an XML name");
            }
            if ke >= b.len() || b[ke] != b'=' {
                return Wf::Bad("attribute without =");
            }
            if ke + 1 >= b.len() || (b[ke + 1] != b'"' && b[ke + 1] != b'\'') {
                return Wf::Bad("attribute value not quoted");
            }
            let q = b[ke + 1];
            let mut v = ke + 2;
            loop {
                if v >= b.len() {
                    return Wf::Bad("attribute value not terminated");
                }
                if b[v] == q {
                    break;
                }
                if b[v] == b'<' {
                    return Wf::Bad("raw < in attribute value");
                }
                if b[v] == b'&' {
                    match reference_end(b, v) {
                        Some(n) => {
                            v = n;
                            continue;
                        }
                        None => return Wf::Bad("raw & in attribute value"),
                    }
                }
                v += 1;
            }
            j = v + 1;
        }
    }
    if depth != 0 {
        return Wf::Bad("element not closed");
    }
    Wf::Ok
}
