//! Harness table of the serde crate (same scheme as the core crate's table).
use crate::common::Outcome;
use crate::de::*;
use crate::se::*;

/// Loop-free stand-in for `alloc::fmt::format`: error *messages* are not observed by any property.
#[cfg(kani)]
pub fn format_stub(_args: core::fmt::Arguments<'_>) -> String {
    String::new()
}

/// Loop-free stand-ins for UTF-8 validation: they ASSERT (solver-chosen index) that the bytes are 7-bit,
/// where they are exact.
#[cfg(kani)]
pub fn from_utf8_ascii(v: &[u8]) -> Result<&str, core::str::Utf8Error> {
    let i: usize = kani::any();
    if i < v.len() {
        assert!(v[i] < 0x80, "STUB: from_utf8 stub is only exact on 7-bit input");
    }
    Ok(unsafe { core::str::from_utf8_unchecked(v) })
}
#[cfg(kani)]
pub fn string_from_utf8_ascii(v: Vec<u8>) -> Result<String, std::string::FromUtf8Error> {
    let i: usize = kani::any();
    if i < v.len() {
        assert!(v[i] < 0x80, "STUB: String::from_utf8 stub is only exact on 7-bit input");
    }
    Ok(unsafe { String::from_utf8_unchecked(v) })
}

macro_rules! harnesses {
    ($( $(#[$attr:meta])* $name:ident, unwind = $u:literal, raw = $k:literal, $f:expr; )*) => {
        $(
            #[cfg(kani)]
            #[kani::proof]
            #[kani::unwind($u)]
            $(#[$attr])*
            fn $name() {
                let raw: [u8; $k] = kani::any();
                let f: fn(&[u8]) -> Outcome = $f;
                let _ = f(&raw);
            }
        )*
        /// name, raw length, check
        pub fn registry() -> Vec<(&'static str, usize, fn(&[u8]) -> Outcome)> {
            vec![ $( (stringify!($name), $k, $f as fn(&[u8]) -> Outcome), )* ]
        }
    };
}

harnesses! {
    #[kani::stub(alloc::fmt::format, format_stub)]
    c13_name_n2, unwind = 5, raw = 3, |r| check_xml_name::<2>(r);
    #[kani::stub(alloc::fmt::format, format_stub)]
    c13_name_n3, unwind = 6, raw = 4, |r| check_xml_name::<3>(r);
    #[kani::stub(alloc::fmt::format, format_stub)]
    c13_name_n4, unwind = 7, raw = 5, |r| check_xml_name::<4>(r);
    #[kani::stub(core::str::from_utf8, from_utf8_ascii)]
    #[kani::stub(alloc::string::String::from_utf8, string_from_utf8_ascii)]
    c13_esc_list, unwind = 9, raw = 3, |r| check_se_escape(r, true, None);
    #[kani::stub(core::str::from_utf8, from_utf8_ascii)]
    #[kani::stub(alloc::string::String::from_utf8, string_from_utf8_ascii)]
    c13_esc_item, unwind = 9, raw = 3, |r| check_se_escape(r, false, None);
    #[kani::stub(core::str::from_utf8, from_utf8_ascii)]
    #[kani::stub(alloc::string::String::from_utf8, string_from_utf8_ascii)]
    c13_esc_list_t0l0, unwind = 9, raw = 3, |r| check_se_escape(r, true, Some((0, 0)));
    #[kani::stub(core::str::from_utf8, from_utf8_ascii)]
    #[kani::stub(alloc::string::String::from_utf8, string_from_utf8_ascii)]
    c13_esc_list_t0l1, unwind = 9, raw = 3, |r| check_se_escape(r, true, Some((0, 1)));
    #[kani::stub(core::str::from_utf8, from_utf8_ascii)]
    #[kani::stub(alloc::string::String::from_utf8, string_from_utf8_ascii)]
    c13_esc_list_t0l2, unwind = 9, raw = 3, |r| check_se_escape(r, true, Some((0, 2)));
    #[kani::stub(core::str::from_utf8, from_utf8_ascii)]
    #[kani::stub(alloc::string::String::from_utf8, string_from_utf8_ascii)]
    c13_esc_list_t1l0, unwind = 9, raw = 3, |r| check_se_escape(r, true, Some((1, 0)));
    #[kani::stub(core::str::from_utf8, from_utf8_ascii)]
    #[kani::stub(alloc::string::String::from_utf8, string_from_utf8_ascii)]
    c13_esc_list_t1l1, unwind = 9, raw = 3, |r| check_se_escape(r, true, Some((1, 1)));
    #[kani::stub(core::str::from_utf8, from_utf8_ascii)]
    #[kani::stub(alloc::string::String::from_utf8, string_from_utf8_ascii)]
    c13_esc_list_t1l2, unwind = 9, raw = 3, |r| check_se_escape(r, true, Some((1, 2)));
    #[kani::stub(core::str::from_utf8, from_utf8_ascii)]
    #[kani::stub(alloc::string::String::from_utf8, string_from_utf8_ascii)]
    c13_esc_list_t2l0, unwind = 9, raw = 3, |r| check_se_escape(r, true, Some((2, 0)));
    #[kani::stub(core::str::from_utf8, from_utf8_ascii)]
    #[kani::stub(alloc::string::String::from_utf8, string_from_utf8_ascii)]
    c13_esc_list_t2l1, unwind = 9, raw = 3, |r| check_se_escape(r, true, Some((2, 1)));
    #[kani::stub(core::str::from_utf8, from_utf8_ascii)]
    #[kani::stub(alloc::string::String::from_utf8, string_from_utf8_ascii)]
    c13_esc_list_t2l2, unwind = 9, raw = 3, |r| check_se_escape(r, true, Some((2, 2)));
    #[kani::stub(core::str::from_utf8, from_utf8_ascii)]
    #[kani::stub(alloc::string::String::from_utf8, string_from_utf8_ascii)]
    c13_esc_item_t0l0, unwind = 9, raw = 3, |r| check_se_escape(r, false, Some((0, 0)));
    #[kani::stub(core::str::from_utf8, from_utf8_ascii)]
    #[kani::stub(alloc::string::String::from_utf8, string_from_utf8_ascii)]
    c13_esc_item_t0l1, unwind = 9, raw = 3, |r| check_se_escape(r, false, Some((0, 1)));
    #[kani::stub(core::str::from_utf8, from_utf8_ascii)]
    #[kani::stub(alloc::string::String::from_utf8, string_from_utf8_ascii)]
    c13_esc_item_t0l2, unwind = 9, raw = 3, |r| check_se_escape(r, false, Some((0, 2)));
    #[kani::stub(core::str::from_utf8, from_utf8_ascii)]
    #[kani::stub(alloc::string::String::from_utf8, string_from_utf8_ascii)]
    c13_esc_item_t1l0, unwind = 9, raw = 3, |r| check_se_escape(r, false, Some((1, 0)));
    #[kani::stub(core::str::from_utf8, from_utf8_ascii)]
    #[kani::stub(alloc::string::String::from_utf8, string_from_utf8_ascii)]
    c13_esc_item_t1l1, unwind = 9, raw = 3, |r| check_se_escape(r, false, Some((1, 1)));
    #[kani::stub(core::str::from_utf8, from_utf8_ascii)]
    #[kani::stub(alloc::string::String::from_utf8, string_from_utf8_ascii)]
    c13_esc_item_t1l2, unwind = 9, raw = 3, |r| check_se_escape(r, false, Some((1, 2)));
    #[kani::stub(core::str::from_utf8, from_utf8_ascii)]
    #[kani::stub(alloc::string::String::from_utf8, string_from_utf8_ascii)]
    c13_esc_item_t2l0, unwind = 9, raw = 3, |r| check_se_escape(r, false, Some((2, 0)));
    #[kani::stub(core::str::from_utf8, from_utf8_ascii)]
    #[kani::stub(alloc::string::String::from_utf8, string_from_utf8_ascii)]
    c13_esc_item_t2l1, unwind = 9, raw = 3, |r| check_se_escape(r, false, Some((2, 1)));
    #[kani::stub(core::str::from_utf8, from_utf8_ascii)]
    #[kani::stub(alloc::string::String::from_utf8, string_from_utf8_ascii)]
    c13_esc_item_t2l2, unwind = 9, raw = 3, |r| check_se_escape(r, false, Some((2, 2)));
    #[kani::stub(core::str::from_utf8, from_utf8_ascii)]
    #[kani::stub(alloc::fmt::format, format_stub)]
    c07_s_k1, unwind = 8, raw = 2, |r| check_de_total(r, 0, 1);
    #[kani::stub(core::str::from_utf8, from_utf8_ascii)]
    #[kani::stub(alloc::fmt::format, format_stub)]
    c07_s_k2, unwind = 9, raw = 3, |r| check_de_total(r, 0, 2);
    #[kani::stub(core::str::from_utf8, from_utf8_ascii)]
    #[kani::stub(alloc::fmt::format, format_stub)]
    c07_string_k2, unwind = 9, raw = 3, |r| check_de_total(r, 1, 2);
    #[kani::stub(core::str::from_utf8, from_utf8_ascii)]
    #[kani::stub(alloc::string::String::from_utf8, string_from_utf8_ascii)]
    #[kani::stub(alloc::fmt::format, format_stub)]
    c13_ty0_attr, unwind = 40, raw = 3, |r| check_se_type(r, 0, 0);
    #[kani::stub(core::str::from_utf8, from_utf8_ascii)]
    #[kani::stub(alloc::string::String::from_utf8, string_from_utf8_ascii)]
    #[kani::stub(alloc::fmt::format, format_stub)]
    c13_ty0_text, unwind = 40, raw = 3, |r| check_se_type(r, 0, 1);
    #[kani::stub(core::str::from_utf8, from_utf8_ascii)]
    #[kani::stub(alloc::string::String::from_utf8, string_from_utf8_ascii)]
    #[kani::stub(alloc::fmt::format, format_stub)]
    c13_ty4_key, unwind = 40, raw = 3, |r| check_se_type(r, 4, 0);
    #[kani::stub(core::str::from_utf8, from_utf8_ascii)]
    #[kani::stub(alloc::string::String::from_utf8, string_from_utf8_ascii)]
    #[kani::stub(alloc::fmt::format, format_stub)]
    c13_ty5_root, unwind = 40, raw = 3, |r| check_se_type(r, 5, 0);
}
