//! C07 / C15 / C20: the deserializer above the event-source boundary. The environment is a scripted
//! `XmlRead` that yields raw reader events through the REAL `StartTrimmer` (hook `VerifTrimmer`);
//! the script is constrained only by the reader's contract (properly nested tags, Eof final).

use crate::common::*;
use crate::{ensure, forall_idx, require, witness};
use quick_xml::de::{Deserializer, PayloadEvent, PredefinedEntityResolver, VerifTrimmer, XmlRead};
use quick_xml::events::{BytesCData, BytesEnd, BytesStart, BytesText, Event};
use quick_xml::name::QName;
use quick_xml::{DeError, Decoder};
use serde::Deserialize;

pub const E_START_A: u8 = 0;
pub const E_END_A: u8 = 1;
pub const E_START_B: u8 = 2;
pub const E_END_B: u8 = 3;
pub const E_TEXT_X: u8 = 4;
pub const E_TEXT_WS: u8 = 5;
pub const E_CDATA_Y: u8 = 6;
pub const E_COMMENT: u8 = 7;
pub const E_EOF: u8 = 8;
pub const E_START_R: u8 = 9;
pub const E_END_R: u8 = 10;
pub const E_TEXT_1: u8 = 11;
pub const E_PI: u8 = 12;
pub const E_START_S: u8 = 13;
pub const E_END_S: u8 = 14;
pub const E_TEXT_Z: u8 = 15;

fn name_of(code: u8) -> &'static str {
    match code {
        E_START_A | E_END_A => "a",
        E_START_B | E_END_B => "b",
        E_START_S | E_END_S => "s",
        _ => "r",
    }
}

fn raw_event(code: u8) -> Event<'static> {
    match code {
        E_START_A | E_START_B | E_START_R | E_START_S => Event::Start(BytesStart::new(name_of(code))),
        E_END_A | E_END_B | E_END_R | E_END_S => Event::End(BytesEnd::new(name_of(code))),
        E_TEXT_X => Event::Text(BytesText::from_escaped("x")),
        E_TEXT_1 => Event::Text(BytesText::from_escaped("1")),
        E_TEXT_Z => Event::Text(BytesText::from_escaped("z")),
        E_TEXT_WS => Event::Text(BytesText::from_escaped(" ")),
        E_CDATA_Y => Event::CData(BytesCData::new("y")),
        E_COMMENT => Event::Comment(BytesText::from_escaped("c")),
        E_PI => Event::PI(quick_xml::events::BytesPI::new("p")),
        _ => Event::Eof,
    }
}

pub const MAXS: usize = 12;

/// The scripted event source.
pub struct Script {
    pub ev: [u8; MAXS],
    pub n: usize,
    pub pos: usize,
    pub trimmer: VerifTrimmer,
    pub decoder: Decoder,
}

impl Script {
    pub fn new(ev: [u8; MAXS], n: usize) -> Self {
        Script { ev, n, pos: 0, trimmer: VerifTrimmer::default(), decoder: quick_xml::Reader::from_str("").decoder() }
    }
    fn raw_next(&mut self) -> u8 {
        if self.pos < self.n {
            let c = self.ev[self.pos];
            self.pos += 1;
            c
        } else {
            E_EOF
        }
    }
}

impl XmlRead<'static> for Script {
    fn next(&mut self) -> Result<PayloadEvent<'static>, DeError> {
        loop {
            let c = self.raw_next();
            if let Some(p) = self.trimmer.trim(raw_event(c)) {
                return Ok(p);
            }
        }
    }
    fn read_to_end(&mut self, name: QName) -> Result<(), DeError> {
        // what `Reader::read_to_end` does: events up to the matching end tag, counting nested same names
        let mut depth = 0usize;
        loop {
            let c = self.raw_next();
            match c {
                E_EOF => return Err(DeError::UnexpectedEof),
                E_START_A | E_START_B | E_START_R | E_START_S => {
                    if name_of(c).as_bytes() == name.as_ref() {
                        depth += 1;
                    }
                }
                E_END_A | E_END_B | E_END_R | E_END_S => {
                    if name_of(c).as_bytes() == name.as_ref() {
                        if depth == 0 {
                            return Ok(());
                        }
                        depth -= 1;
                    }
                }
                _ => {}
            }
        }
    }
    fn decoder(&self) -> Decoder {
        self.decoder
    }
    fn has_nil_attr(&self, _start: &BytesStart) -> bool {
        false
    }
}

/// reader contract g1: start/end tags properly nested with matching names, possibly truncated by Eof
fn well_nested(ev: &[u8; MAXS], n: usize) -> bool {
    let mut stack = [0u8; MAXS];
    let mut d = 0usize;
    let mut i = 0;
    while i < MAXS {
        if i < n {
            match ev[i] {
                E_START_A | E_START_B | E_START_R | E_START_S => {
                    stack[d] = ev[i];
                    d += 1;
                }
                E_END_A | E_END_B | E_END_R | E_END_S => {
                    if d == 0 || stack[d - 1] + 1 != ev[i] {
                        return false;
                    }
                    d -= 1;
                }
                E_EOF => return i + 1 == n,
                _ => {}
            }
        }
        i += 1;
    }
    true
}

#[derive(Deserialize, Debug, PartialEq)]
pub struct S {
    a: String,
    #[serde(default)]
    b: Vec<String>,
}
#[derive(Deserialize, Debug, PartialEq)]
pub enum E {
    a,
    b(String),
}
#[derive(Deserialize, Debug, PartialEq)]
pub struct W {
    #[serde(rename = "$text")]
    t: String,
}
#[derive(Deserialize, Debug, PartialEq)]
pub struct V {
    #[serde(rename = "$value")]
    v: Vec<E>,
}
#[derive(Deserialize, Debug, PartialEq)]
pub struct O {
    a: Option<String>,
    b: (),
}

fn script_from(raw: &[u8], k: usize) -> ([u8; MAXS], usize) {
    // root Start r, k solver-chosen inner events, End r, Eof
    let mut ev = [E_EOF; MAXS];
    ev[0] = E_START_R;
    let mut i = 0;
    while i < k {
        ev[1 + i] = raw[i] % 9;
        i += 1;
    }
    ev[1 + k] = E_END_R;
    ev[2 + k] = E_EOF;
    (ev, k + 3)
}

/// C07: deserialization of `ty` over every script of k inner events satisfying the reader contract
/// returns Ok or Err; panics / unreachable!() / expect() are Kani checks. raw: [codes[k], trunc]
pub fn check_de_total(raw: &[u8], ty: u8, k: usize) -> Outcome {
    let (mut ev, mut n) = script_from(raw, k);
    // truncation: the document may stop (Eof) after any event
    let trunc = raw[k] as usize;
    if trunc < n {
        ev[trunc] = E_EOF;
        n = trunc + 1;
    }
    require!(well_nested(&ev, n));
    let mut de = Deserializer::verif_new(Script::new(ev, n), PredefinedEntityResolver);
    let ok = match ty {
        0 => {
            let r = S::deserialize(&mut de);
            let ok = r.is_ok();
            core::mem::forget(r);
            ok
        }
        1 => {
            let r = String::deserialize(&mut de);
            let ok = r.is_ok();
            core::mem::forget(r);
            ok
        }
        2 => {
            let r = <()>::deserialize(&mut de);
            let ok = r.is_ok();
            core::mem::forget(r);
            ok
        }
        3 => {
            let r = E::deserialize(&mut de);
            let ok = r.is_ok();
            core::mem::forget(r);
            ok
        }
        4 => {
            let r = W::deserialize(&mut de);
            let ok = r.is_ok();
            core::mem::forget(r);
            ok
        }
        5 => {
            let r = V::deserialize(&mut de);
            let ok = r.is_ok();
            core::mem::forget(r);
            ok
        }
        _ => {
            let r = O::deserialize(&mut de);
            let ok = r.is_ok();
            core::mem::forget(r);
            ok
        }
    };
    witness!(ok, "a value was produced");
    witness!(!ok, "an error was produced");
    core::mem::forget(de);
    Outcome::Pass
}
