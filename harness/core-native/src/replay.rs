//! Native replayer / oracle validator.
//!   replay run <harness> <hex raw>      -> prints PASS | SKIP | FAIL <label> | PANIC <msg>
//!   replay list                          -> harness names and raw lengths
//!   replay validate <files...>           -> reference tokenizer vs real reader on whole documents
//!   replay memchr                        -> shim vs real memchr differential
use qx_harness_core::common::Outcome;
use std::panic;

fn unhex(s: &str) -> Vec<u8> {
    let s: Vec<u8> = s.bytes().filter(|b| b.is_ascii_hexdigit()).collect();
    s.chunks(2)
        .map(|c| u8::from_str_radix(std::str::from_utf8(c).unwrap(), 16).unwrap())
        .collect()
}

fn main() {
    let args: Vec<String> = std::env::args().collect();
    if args.len() < 2 {
        eprintln!("usage: replay run|list|validate|memchr ...");
        std::process::exit(2);
    }
    match args[1].as_str() {
        "list" => {
            for (n, k, _) in qx_harness_core::table::registry() {
                println!("{} {}", n, k);
            }
        }
        "run" => {
            let name = &args[2];
            let raw = unhex(&args[3]);
            let reg = qx_harness_core::table::registry();
            let Some((_, k, f)) = reg.iter().find(|(n, _, _)| n == name) else {
                eprintln!("unknown harness {}", name);
                std::process::exit(2);
            };
            let mut raw = raw;
            raw.resize(*k, 0);
            let f = *f;
            panic::set_hook(Box::new(|_| {}));
            let r = panic::catch_unwind(move || f(&raw));
            match r {
                Ok(Outcome::Pass) => println!("PASS"),
                Ok(Outcome::Skip) => println!("SKIP"),
                Ok(Outcome::Fail(l)) => {
                    println!("FAIL {}", l);
                    std::process::exit(1);
                }
                Err(e) => {
                    let msg = if let Some(s) = e.downcast_ref::<String>() {
                        s.clone()
                    } else if let Some(s) = e.downcast_ref::<&str>() {
                        s.to_string()
                    } else {
                        "?".into()
                    };
                    println!("PANIC {}", msg);
                    std::process::exit(1);
                }
            }
        }
        "validate" => {
            let mut bad = 0;
            let mut n = 0;
            for path in &args[2..] {
                let doc = std::fs::read(path).unwrap();
                for cfg in 0..128u8 {
                    n += 1;
                    if let Err(e) = qx_harness_core::validate::validate_doc(&doc, cfg) {
                        println!("ORACLE-DISAGREEMENT file={} cfg={:#04x}: {}", path, cfg, e);
                        bad += 1;
                        break;
                    }
                }
            }
            for lit in qx_harness_core::validate::LITERALS {
                for cfg in 0..128u8 {
                    n += 1;
                    if let Err(e) = qx_harness_core::validate::validate_doc(lit.as_bytes(), cfg) {
                        println!("ORACLE-DISAGREEMENT literal={:?} cfg={:#04x}: {}", lit, cfg, e);
                        bad += 1;
                        break;
                    }
                }
            }
            println!("validated {} (document, config) runs, {} disagreements", n, bad);
            if bad > 0 {
                std::process::exit(1);
            }
        }
        "memchr" => {
            qx_harness_core::validate::memchr_selfcheck();
            println!("memchr model ok");
        }
        _ => std::process::exit(2),
    }
}
