//! Native replayer / oracle validator.
//!   replay run <harness> <hex raw>      -> prints PASS | SKIP | FAIL <label> | PANIC <msg>
//!   replay list                          -> harness names and raw lengths
//!   replay validate <files...>           -> reference tokenizer vs real reader on whole documents
//!   replay memchr                        -> shim vs real memchr differential
use qx_harness_core::common::Outcome;
use std::panic;

fn unhex(s: &str) -> Vec<u8> {
    let s: Vec<u8> = s.bytes().filter(|b| b.is_ascii_hexdigit()).collect();
    s.chunks(2)
        .map(|c| u8::from_str_radix(std::str::from_utf8(c).unwrap(), 16).unwrap())
        .collect()
}


/// Fallback used when the solver refuted an assertion but could not hand over concrete values
/// (counterexample trace generation out of memory): look for an input on which the SAME clause fails
/// natively. The solver's verdict is the deciding step; this only finds a replayable witness.
fn search(name: &str, label: &str, budget: u64, seed: u64) -> Option<Vec<u8>> {
    let reg = qx_harness_core::table::registry();
    let (_, k, f) = reg.iter().find(|(n, _, _)| *n == name)?;
    let f = *f;
    let k = *k;
    let alphabet: &[u8] = b"<>/!?-[]=\"' \t\nab&;#x09:DOCTYPE\x00\x01\x02\x03\x04\x05\x07\x08\x7f\x80\xbf\xef\xbb\xff";
    let mut state = seed.wrapping_mul(6364136223846793005).wrapping_add(1442695040888963407) | 1;
    let mut next = move || {
        state ^= state << 13;
        state ^= state >> 7;
        state ^= state << 17;
        state
    };
    panic::set_hook(Box::new(|_| {}));
    for _ in 0..budget {
        let mut raw = vec![0u8; k];
        for b in raw.iter_mut() {
            let r = next();
            *b = match r % 10 {
                0..=4 => ((r >> 8) % 16) as u8,
                5..=7 => alphabet[((r >> 8) as usize) % alphabet.len()],
                _ => (r >> 8) as u8,
            };
        }
        let raw2 = raw.clone();
        let res = panic::catch_unwind(move || f(&raw2));
        match res {
            Ok(Outcome::Fail(l)) if l == label => return Some(raw),
            Err(_) if label == "PANIC" => return Some(raw),
            _ => {}
        }
    }
    None
}

fn main() {
    let args: Vec<String> = std::env::args().collect();
    if args.len() < 2 {
        eprintln!("usage: replay run|list|validate|memchr ...");
        std::process::exit(2);
    }
    match args[1].as_str() {
        "list" => {
            for (n, k, _) in qx_harness_core::table::registry() {
                println!("{} {}", n, k);
            }
        }
        "run" => {
            let name = &args[2];
            let raw = unhex(&args[3]);
            let reg = qx_harness_core::table::registry();
            let Some((_, k, f)) = reg.iter().find(|(n, _, _)| n == name) else {
                eprintln!("unknown harness {}", name);
                std::process::exit(2);
            };
            let mut raw = raw;
            raw.resize(*k, 0);
            let f = *f;
            panic::set_hook(Box::new(|_| {}));
            let r = panic::catch_unwind(move || f(&raw));
            match r {
                Ok(Outcome::Pass) => println!("PASS"),
                Ok(Outcome::Skip) => println!("SKIP"),
                Ok(Outcome::Fail(l)) => {
                    println!("FAIL {}", l);
                    std::process::exit(1);
                }
                Err(e) => {
                    let msg = if let Some(s) = e.downcast_ref::<String>() {
                        s.clone()
                    } else if let Some(s) = e.downcast_ref::<&str>() {
                        s.to_string()
                    } else {
                        "?".into()
                    };
                    println!("PANIC {}", msg);
                    std::process::exit(1);
                }
            }
        }
        "search" => {
            let budget: u64 = args.get(4).and_then(|s| s.parse().ok()).unwrap_or(2_000_000);
            let seed: u64 = args.get(5).and_then(|s| s.parse().ok()).unwrap_or(1);
            match search(&args[2], &args[3], budget, seed) {
                Some(raw) => println!("FOUND {}", raw.iter().map(|b| format!("{:02x}", b)).collect::<String>()),
                None => {
                    println!("NOTFOUND");
                    std::process::exit(3);
                }
            }
        }
        "validate" => {
            let mut bad = 0;
            let mut n = 0;
            for path in &args[2..] {
                let doc = std::fs::read(path).unwrap();
                for cfg in 0..128u8 {
                    n += 1;
                    if let Err(e) = qx_harness_core::validate::validate_doc(&doc, cfg) {
                        println!("ORACLE-DISAGREEMENT file={} cfg={:#04x}: {}", path, cfg, e);
                        bad += 1;
                        break;
                    }
                }
            }
            for lit in qx_harness_core::validate::LITERALS {
                for cfg in 0..128u8 {
                    n += 1;
                    if let Err(e) = qx_harness_core::validate::validate_doc(lit.as_bytes(), cfg) {
                        println!("ORACLE-DISAGREEMENT literal={:?} cfg={:#04x}: {}", lit, cfg, e);
                        bad += 1;
                        break;
                    }
                }
            }
            println!("validated {} (document, config) runs, {} disagreements", n, bad);
            if bad > 0 {
                std::process::exit(1);
            }
        }
        "memchr" => {
            qx_harness_core::validate::memchr_selfcheck();
            println!("memchr model ok");
        }
        _ => std::process::exit(2),
    }
}
