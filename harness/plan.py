# The plan: which harnesses (obligations) decide which property in which tier.
# `covers`: reachability witnesses that must be SATISFIED for the obligation to count (vacuity guard).
# `timeout`: seconds (quick tier); thorough tier uses timeout_thorough or >= 2700.

def H(harness, bound, covers=(), timeout=900, cost=1, crate="core", **kw):
    d = dict(harness=harness, bound=bound, covers=list(covers), timeout=timeout, cost=cost, crate=crate)
    d.update(kw)
    return d

ALL256 = "all 256 byte values"
STEP = "one Reader<&[u8]>::read_event() from an arbitrary reader state (hook verif_from_state), all 128 switch settings symbolic, "

SCAN_Q = [
    H("k_elem_feed_n8", "ElementParser::feed, <=8 symbolic bytes, 3 start states", ["found after leaving a carried quote", "ends inside a quote"]),
    H("k_pi_feed_n8", "PiParser::feed, 1..8 symbolic bytes, carry in {0,1}", ["terminator split as ?|>", "piece ends with ?"]),
    H("k_bang_parse_n8", "BangType::parse(&[], chunk), <=8 symbolic bytes, 3 kinds", ["comment end found", "cdata end found", "doctype end after nested"]),
    H("k_name_len_n8", "name_len/is_whitespace/trim_xml_*, <=8 symbolic bytes", ["name followed by whitespace"]),
]
SCAN_T = [
    H("k_elem_feed_n12", "ElementParser::feed, <=12 symbolic bytes", ["found after leaving a carried quote"]),
    H("k_pi_feed_n12", "PiParser::feed, 1..12 symbolic bytes", ["terminator split as ?|>"]),
    H("k_bang_parse_n12", "BangType::parse(&[], chunk), <=12 symbolic bytes", ["comment end found", "cdata end found"]),
]
STEP1_Q = [
    H("s1_tag_n4", STEP + "InsideMarkup, rest = start/empty tag class, <=4 bytes, " + ALL256, ["Start", "Empty"], cost=3),
    H("s1_end_n4", STEP + "InsideMarkup, rest[0]='/', <=4 bytes, open-name stack depth<=1 name<=1 byte", ["End", "IllFormedError"], cost=4),
    H("s1_pi_n4", STEP + "InsideMarkup, rest[0]='?', <=4 bytes", ["PI"], cost=3),
    H("s1_decl_n3", STEP + "InsideMarkup, rest='?xml'+<=3 bytes", ["Decl", "PI"], cost=3),
    H("s1_bang_n4", STEP + "InsideMarkup, rest[0]='!', <=4 bytes", ["SyntaxError"], cost=3),
    H("s1_comment_n4", STEP + "InsideMarkup, rest='!--'+<=4 bytes", ["Comment", "IllFormedError"], cost=3),
    H("s1_cdata_n4", STEP + "InsideMarkup, rest='![CDATA['+<=4 bytes", ["CData"], cost=3),
    H("s1_doctype_n4", STEP + "InsideMarkup, rest='!DOCTYPE'+<=4 bytes", ["DocType", "IllFormedError"], cost=3),
    H("s1_doctypelc_n3", STEP + "InsideMarkup, rest='!doctype'+<=3 bytes", ["DocType"], cost=3),
    H("s1_text_n4", STEP + "InsideText, <=4 bytes", ["Text", "Eof"], cost=5),
    H("s1_init_n4", STEP + "Init, <=4 bytes (incl. BOM + 1)", ["Text"], cost=5),
    H("s1_initbom_n3", STEP + "Init, rest=EF BB BF + <=3 bytes", ["Text", "Start"], cost=4),
    H("s1_empty_n2", STEP + "InsideEmpty, stack depth 1, name <=2 bytes", ["End"]),
    H("s1_done_n2", STEP + "Done", ["Eof"]),
]

PLAN = {
 "defaults": {"crate": "core", "timeout": 900},
 "properties": {
  "C01": {
    "quick": SCAN_Q + STEP1_Q,
    "thorough": SCAN_T,
    "evidence": {
      "functions": ["ElementParser::feed", "PiParser::feed", "BangType::parse", "utils::name_len", "utils::is_whitespace",
                    "Reader::read_event_impl (read_event_impl!/read_until_close!)", "<&[u8] as XmlSource>::{remove_utf8_bom,read_text,read_with,read_bang_element,skip_whitespace,peek_one}",
                    "ReaderState::{emit_text,emit_bang,emit_end,emit_question_mark,emit_start,close_expanded_empty}"],
      "bounds": "scanners: every byte string up to 8 (quick) / 12 (thorough) bytes; reader: one step from every reader state over every remaining input of <=4 symbolic bytes (after the concrete construct openers listed per obligation), all 128 configurations; by induction over steps the number of constructs in a document is unbounded",
      "outside": "single constructs longer than the per-step bound; buffered and async sources (C02)",
      "assumptions": ["memchr replaced by a naive model (differentially tested)", "reader pre-states built through cfg(kani) hook Reader::verif_from_state under the stated representation invariant",
                      "the documented-but-unimplemented empty-Text case (trim_text_end && !trim_text_start) is excluded here and decided under C16"],
    },
  },
 },
}
