# The plan: which harnesses (obligations) decide which property in which tier.
# `covers`: reachability witnesses that must be SATISFIED for the obligation to count (vacuity guard).
# `timeout`: seconds (quick tier); thorough tier uses timeout_thorough or >= 2700.

def H(harness, bound, covers=(), timeout=900, cost=1, crate="core", **kw):
    # gb: estimated resident set of the CBMC process (the driver keeps the sum of running ones under its budget)
    gb = 2 if cost <= 2 else (4 if cost <= 4 else (7 if cost <= 6 else 10))
    d = dict(harness=harness, bound=bound, covers=list(covers), timeout=timeout, cost=cost, crate=crate, gb=gb)
    d.update(kw)
    if d.get("mem_gb"):
        d["gb"] = max(d["gb"], int(d["mem_gb"] * 0.75))
    return d

ALL256 = "all 256 byte values"
STEP = "one Reader<&[u8]>::read_event() from an arbitrary reader state (hook verif_from_state), all 128 switch settings symbolic, "

SCAN_Q = [
    H("k_elem_feed_n8", "ElementParser::feed, <=8 symbolic bytes, 3 start states", ["found after leaving a carried quote", "ends inside a quote"]),
    H("k_pi_feed_n8", "PiParser::feed, 1..8 symbolic bytes, carry in {0,1}", ["terminator split as ?|>", "piece ends with ?"]),
    H("k_bang_parse_n8", "BangType::parse(&[], chunk), <=8 symbolic bytes, 3 kinds", ["comment end found", "cdata end found", "doctype end after nested"]),
    H("k_name_len_n8", "name_len/is_whitespace/trim_xml_*, <=8 symbolic bytes", ["name followed by whitespace"]),
]
SCAN_T = [
    H("k_elem_feed_n12", "ElementParser::feed, <=12 symbolic bytes", ["found after leaving a carried quote"]),
    H("k_pi_feed_n12", "PiParser::feed, 1..12 symbolic bytes", ["terminator split as ?|>"]),
    H("k_bang_parse_n12", "BangType::parse(&[], chunk), <=12 symbolic bytes", ["comment end found", "cdata end found"]),
]
EMIT_Q = [
    H("e_cdata_n12", "ReaderState::emit_bang(CData) on every scanner output <=12 bytes, all configs", ["CData"]),
    H("e_comment_n10", "ReaderState::emit_bang(Comment) on every scanner output <=10 bytes, all configs", ["Comment", "DoubleHyphen"]),
    H("e_doctype_n12", "ReaderState::emit_bang(DocType) on every scanner output <=12 bytes, all configs", ["DocType", "MissingDoctypeName"]),
    H("e_pi_n8", "ReaderState::emit_question_mark on every scanner output <=8 bytes", ["Decl"]),
    H("e_end_n4", "ReaderState::emit_end on every scanner output <=4 bytes, stack depth<=1, name<=2", [], cost=3),
    H("e_start_n8", "ReaderState::emit_start on every scanner output <=8 bytes", []),
]
STEP1_Q = [
    H("s1_tag_n4", STEP + "InsideMarkup, rest = start/empty tag class, <=4 bytes, " + ALL256, ["Start", "Empty"], cost=3),
    H("s1_end_n4", STEP + "InsideMarkup, rest[0]='/', <=4 bytes, open-name stack depth<=1 name<=1 byte", ["End", "IllFormedError"], cost=4),
    H("s1_pi_n4", STEP + "InsideMarkup, rest[0]='?', <=4 bytes", ["PI"], cost=3),
    H("s1_decl_n3", STEP + "InsideMarkup, rest='?xml'+<=3 bytes", ["Decl", "PI"], cost=3),
    H("s1_bang_n4", STEP + "InsideMarkup, rest[0]='!', <=4 bytes", ["SyntaxError"], cost=3),
    H("s1_comment_n4", STEP + "InsideMarkup, rest='!--'+<=4 bytes", ["Comment", "IllFormedError"], cost=5),
    H("s1_text_n4", STEP + "InsideText, <=4 bytes", ["Text", "Eof"], cost=5),
    H("s1_init_n4", STEP + "Init, <=4 bytes (incl. BOM + 1)", ["Text"], cost=5),
    H("s1_initbom_n3", STEP + "Init, rest=EF BB BF + <=3 bytes", ["Text", "Start"], cost=6),
    H("s1_empty_n2", STEP + "InsideEmpty, stack depth 1, name <=2 bytes", ["End"]),
    H("s1_done_n2", STEP + "Done", ["Eof"]),
]
STEP1_T = [
    H("s1_doctypelc_n3", STEP + "InsideMarkup, rest='!doctype'+<=3 bytes", ["DocType"], cost=9, timeout_thorough=3600),
    H("e_end_n6", "ReaderState::emit_end on every scanner output <=6 bytes", [], cost=5),
]
SHAPE = "open-name stack shape concrete (depth, name lengths), name bytes + tag bytes + 4 switches symbolic (ASCII); "
C04_Q = [
    H("e_end_n4", "ReaderState::emit_end on every scanner output <=4 bytes, stack depth<=1, name<=2, all 128 configs", [], cost=3),
    H("s4_end_d2_11_n4", STEP + "end tag <=4 bytes; stack (a)(b): depth 2, lengths 1,1; " + SHAPE, ["End", "IllFormedError"], cost=5),
    H("s4_end_d2_21_n4", STEP + "end tag <=4 bytes; depth 2, lengths 2,1; " + SHAPE, ["End", "IllFormedError"], cost=5),
    H("s4_end_d2_12_n4", STEP + "end tag <=4 bytes; depth 2, lengths 1,2; " + SHAPE, ["End", "IllFormedError"], cost=5),
    H("s4_end_d1_2_n4", STEP + "end tag <=4 bytes; depth 1, length 2; " + SHAPE, ["End", "IllFormedError"], cost=5),
    H("s4_end_d0_n4", STEP + "end tag <=4 bytes; nothing open; " + SHAPE, ["End", "IllFormedError"], cost=5),
    H("s4_tag_d2_12_n3", STEP + "start/empty tag <=3 bytes; depth 2, lengths 1,2; " + SHAPE, ["Start"], cost=5),
    H("s4_tag_d1_1_n3", STEP + "start/empty tag <=3 bytes; depth 1, length 1; " + SHAPE, ["Start"], cost=5),
    H("s4_empty_d2_12", STEP + "InsideEmpty; depth 2, lengths 1,2; " + SHAPE, ["End"], cost=2),
    H("s4_empty_d1_2", STEP + "InsideEmpty; depth 1, length 2; " + SHAPE, ["End"], cost=2),
]
C04_T = [
    H("s4_end_d2_22_n4", STEP + "end tag <=4 bytes; depth 2, lengths 2,2; " + SHAPE, ["End", "IllFormedError"], cost=5),
    H("s4_end_d1_1_n4", STEP + "end tag <=4 bytes; depth 1, length 1; " + SHAPE, ["End", "IllFormedError"], cost=5),
    H("s4_tag_d2_22_n3", STEP + "start/empty tag <=3 bytes; depth 2, lengths 2,2; " + SHAPE, ["Start"], cost=5),
]
C08_Q = [
    H("s8_tag_n4", STEP + "C08 settings, start/empty tag <=4 bytes", ["Start", "Empty"], cost=3),
    H("s8_end_n4", STEP + "C08 settings, end tag <=4 bytes", ["End"], cost=3),
    H("s8_pi_n4", STEP + "C08 settings, PI <=4 bytes", ["PI"], cost=3),
    H("s8_decl_n3", STEP + "C08 settings, '?xml'+<=3 bytes", ["Decl"], cost=3),
    H("s8_comment_n4", STEP + "C08 settings, '!--'+<=4 bytes", ["Comment"], cost=5),
    H("s8_text_n4", STEP + "C08 settings, InsideText <=4 bytes", ["Text", "Eof"], cost=5),
    H("s8_init_n4", STEP + "C08 settings, Init <=4 bytes", ["Text"], cost=5),
    H("s8_initbom_n3", STEP + "C08 settings, Init, BOM + <=3 bytes", ["Text", "Eof"], cost=6),
]
DIFF = "same bytes, same reader state: neutral settings vs solver-chosen settings (5 switches), both the real slice reader; "
C16_Q = [
    H("k_name_len_n8", "trim_xml_start/trim_xml_end kernels, <=8 bytes", []),
    H("r16_transform_n5", "reference side: ref_step(settings) is the documented transformation of ref_step(neutral) for every input <=5 bytes, 5 switches, 3 states (pure reference code)",
      ["dropped text followed by markup"], cost=6),
    H("e_comment_n10", "emit_bang(Comment) on every scanner output <=10 bytes (check_comments)", ["DoubleHyphen"], cost=2),
    H("s1_text_n4", STEP + "InsideText, <=4 bytes (trimming)", ["Text", "Eof"], cost=5),
    H("s16_text_finding_n4", STEP + "InsideText <=4 bytes, ONLY whitespace-only text directly before markup with trim_text_end && !trim_text_start (the region of the known finding)",
      [], cost=5, expect="finding", role="c16-empty-text-twin"),
    H("s1_init_n4", STEP + "Init, <=4 bytes (trimming)", ["Text"], cost=5),
    H("s1_tag_n4", STEP + "start/empty tag <=4 bytes (expansion)", ["Start", "Empty"], cost=3),
    H("s1_empty_n2", STEP + "InsideEmpty: the End of an expanded empty element", ["End"]),
    H("s1_end_n4", STEP + "end tag <=4 bytes (name trimming)", ["End"], cost=4),
    H("s1_comment_n4", STEP + "'!--'+<=4 bytes (comment checking)", ["Comment", "IllFormedError"], cost=5),
]
C16_T = [
    H("r16_transform_n6", "reference side, inputs <=6 bytes", ["dropped text followed by markup"], cost=9, timeout_thorough=3600),
]
BUF = "one Reader<BufRead>::read_event_into() over a source delivering the rest in 2 pieces (cut symbolic) vs the reference step (== slice reader by the C01 obligations), same state; "
C02_Q = [
    H("k_elem_split_n8", "ElementParser::feed split at every cut, <=8 bytes, 3 start states", ["end found in second piece"]),
    H("k_pi_split_n8", "PiParser::feed split at every cut, <=8 bytes", ["cut between ? and >"]),
    H("k_bang_split_n7", "BangType::parse with buffer/chunk split at every cut, <=7 bytes, 3 kinds",
      ["comment terminator split as --|>", "comment terminator split as -|->", "cdata terminator split as ]|]>", "doctype end in second piece"], cost=6),
    H("h2_text_n4", "one XmlSource helper (read_text) on a BufRead delivering <=4 symbolic bytes in 2 pieces (cut symbolic) vs the same helper of the slice source on the same bytes (hooks verif_source)", [], cost=6),
    H("h2_elem_n4", "one XmlSource helper (read_with(ElementParser)) on a BufRead delivering <=4 symbolic bytes in 2 pieces (cut symbolic) vs the same helper of the slice source on the same bytes (hooks verif_source)", [], cost=6),
    H("h2_elem_n3k2", "one XmlSource helper (read_with(ElementParser)) on a BufRead delivering <=3 symbolic bytes in 3 pieces (two cuts) (cut symbolic) vs the same helper of the slice source on the same bytes (hooks verif_source)", [], cost=6),
    H("h2_text_n3k2", "one XmlSource helper (read_text) on a BufRead delivering <=3 symbolic bytes in 3 pieces (two cuts) (cut symbolic) vs the same helper of the slice source on the same bytes (hooks verif_source)", [], cost=6),
    H("h2_pi_n4", "one XmlSource helper (read_with(PiParser)) on a BufRead delivering <=4 symbolic bytes in 2 pieces (cut symbolic) vs the same helper of the slice source on the same bytes (hooks verif_source)", [], cost=6),
    H("h2_skipws_n4", "one XmlSource helper (skip_whitespace) on a BufRead delivering <=4 symbolic bytes in 2 pieces (cut symbolic) vs the same helper of the slice source on the same bytes (hooks verif_source)", [], cost=6),
    H("h2_peek_n4", "one XmlSource helper (peek_one) on a BufRead delivering <=4 symbolic bytes in 2 pieces (cut symbolic) vs the same helper of the slice source on the same bytes (hooks verif_source)", [], cost=6),
    H("h2_bom_n4", "one XmlSource helper (remove_utf8_bom) on a BufRead delivering <=4 symbolic bytes in 2 pieces (cut symbolic) vs the same helper of the slice source on the same bytes (hooks verif_source)", [], cost=6),
]
C02_T = [
    H("k_bang_split_n8", "BangType::parse with buffer/chunk split at every cut, <=8 bytes, 3 kinds",
      ["comment terminator split as --|>", "comment terminator split as -|->", "cdata terminator split as ]|]>", "doctype end in second piece"], cost=9, timeout_thorough=3600),
    H("k_elem_split_n12", "ElementParser::feed split at every cut, <=12 bytes", []),
    H("k_pi_split_n12", "PiParser::feed split at every cut, <=12 bytes", []),
    H("h2_text_n5", "one XmlSource helper (read_text) on a BufRead delivering <=5 symbolic bytes in 2 pieces (cut symbolic) vs the same helper of the slice source on the same bytes (hooks verif_source)", [], cost=9, timeout_thorough=3600, mem_gb=24),
    H("h2_elem_n5", "one XmlSource helper (read_with(ElementParser)) on a BufRead delivering <=5 symbolic bytes in 2 pieces (cut symbolic) vs the same helper of the slice source on the same bytes (hooks verif_source)", [], cost=9, timeout_thorough=3600, mem_gb=24),
    H("h2_pi_n5", "one XmlSource helper (read_with(PiParser)) on a BufRead delivering <=5 symbolic bytes in 2 pieces (cut symbolic) vs the same helper of the slice source on the same bytes (hooks verif_source)", [], cost=9, timeout_thorough=3600, mem_gb=24),
    H("h2_skipws_n5", "one XmlSource helper (skip_whitespace) on a BufRead delivering <=5 symbolic bytes in 2 pieces (cut symbolic) vs the same helper of the slice source on the same bytes (hooks verif_source)", [], cost=9, timeout_thorough=3600, mem_gb=24),
    H("h2_peek_n5", "one XmlSource helper (peek_one) on a BufRead delivering <=5 symbolic bytes in 2 pieces (cut symbolic) vs the same helper of the slice source on the same bytes (hooks verif_source)", [], cost=9, timeout_thorough=3600, mem_gb=24),
    H("h2_bom_n5", "one XmlSource helper (remove_utf8_bom) on a BufRead delivering <=5 symbolic bytes in 2 pieces (cut symbolic) vs the same helper of the slice source on the same bytes (hooks verif_source)", [], cost=9, timeout_thorough=3600, mem_gb=24),
]
FLT = "buffered step over a source with a solver-chosen fault (none / Interrupted / one of 6 other error kinds incl. UnexpectedEof, WouldBlock) at each of its first 3 refills, 2 pieces; "
C18_Q = [
    H("h18_text_n3f2", "one XmlSource helper (read_text) on a BufRead delivering <=3 symbolic bytes in 2 pieces, with a solver-chosen fault (none / Interrupted / one of 6 other error kinds) at each of its first 2 refills, vs the slice helper", ["io error delivered"], cost=6),
    H("h18_elem_n3f2", "one XmlSource helper (read_with(ElementParser)) on a BufRead delivering <=3 symbolic bytes in 2 pieces, with a solver-chosen fault (none / Interrupted / one of 6 other error kinds) at each of its first 2 refills, vs the slice helper", ["io error delivered"], cost=7),
    H("h18_pi_n3f2", "one XmlSource helper (read_with(PiParser)) on a BufRead delivering <=3 symbolic bytes in 2 pieces, with a solver-chosen fault (none / Interrupted / one of 6 other error kinds) at each of its first 2 refills, vs the slice helper", ["io error delivered"], cost=7),
    H("h18_skipws_n3", "one XmlSource helper (skip_whitespace) on a BufRead delivering <=3 symbolic bytes in 2 pieces, with a solver-chosen fault (none / Interrupted / one of 6 other error kinds) at each of its first 3 refills, vs the slice helper", ["io error delivered"], cost=6),
    H("h18_peek_n3", "one XmlSource helper (peek_one) on a BufRead delivering <=3 symbolic bytes in 2 pieces, with a solver-chosen fault (none / Interrupted / one of 6 other error kinds) at each of its first 3 refills, vs the slice helper", ["io error delivered"], cost=6),
    H("h18_bom_n3", "one XmlSource helper (remove_utf8_bom) on a BufRead delivering <=3 symbolic bytes in 2 pieces, with a solver-chosen fault (none / Interrupted / one of 6 other error kinds) at each of its first 3 refills, vs the slice helper", ["io error delivered"], cost=6),
]
C18_T = [
    H("h18_text_n3", "one XmlSource helper (read_text) on a BufRead delivering <=3 symbolic bytes in 2 pieces, with a solver-chosen fault (none / Interrupted / one of 6 other error kinds) at each of its first 3 refills, vs the slice helper", ["io error delivered"], cost=6),
    H("h18_pi_n3", "one XmlSource helper (read_with(PiParser)) on a BufRead delivering <=3 symbolic bytes in 2 pieces, with a solver-chosen fault (none / Interrupted / one of 6 other error kinds) at each of its first 3 refills, vs the slice helper", ["io error delivered"], cost=9, mem_gb=28, gb=22, timeout_thorough=3600),
    H("h18_elem_n3", "one XmlSource helper (read_with(ElementParser)) on a BufRead delivering <=3 symbolic bytes in 2 pieces, with a solver-chosen fault (none / Interrupted / one of 6 other error kinds) at each of its first 3 refills, vs the slice helper", ["io error delivered"], cost=9, mem_gb=28, gb=22, timeout_thorough=3600),
    H("h18_skipws_n4", "same, <=4 bytes", ["io error delivered"], cost=9, timeout_thorough=3600, mem_gb=24),
    H("h18_peek_n4", "same, <=4 bytes", ["io error delivered"], cost=9, timeout_thorough=3600, mem_gb=24),
    H("h18_bom_n4", "same, <=4 bytes", ["io error delivered"], cost=9, timeout_thorough=3600, mem_gb=24),
]

C10_Q = [
    H("x10_parse_number", "parse_number on 'x'? + <=2 leading zeros + <=8 arbitrary ASCII chars: every code point 0..0x10FFFF and beyond, both radices, case variants, signs, non-digits",
      ["supplementary plane character", "surrogate rejected", "out of range rejected"], cost=4),
    H("x10_unescape_n3", "unescape on every ASCII string of <=3 bytes", ["malformed reference"], cost=9, mem_gb=20),
    H("x10_esc_full_1", "escape on every 1-byte ASCII string: table image, forbidden characters absent, borrowed iff unchanged", ["something escaped"], cost=6),
    H("x10_esc_part_1", "partial_escape on every 1-byte ASCII string", ["something escaped"], cost=6),
    H("x10_esc_min_1", "minimal_escape on every 1-byte ASCII string", ["something escaped"], cost=6),
    H("x10_esc_full_c4", "escape on C4 + every continuation byte (U+0100..U+013F, e.g. U+013C whose low byte is '<'): untouched and borrowed", [], cost=4),
    H("x10_esc_full_e280", "escape on E2 80 + every continuation byte (U+2000..U+203F, e.g. U+2026 whose low byte is '&'): untouched and borrowed", [], cost=4),
    H("x10_inv_lt", "inverse by composition: unescape('&lt;') (concrete execution)", []),
    H("x10_inv_gt", "unescape('&gt;') (concrete execution)", []),
    H("x10_inv_amp", "unescape('&amp;') (concrete execution)", []),
    H("x10_inv_apos", "unescape('&apos;') (concrete execution)", []),
    H("x10_inv_quot", "unescape('&quot;') (concrete execution)", []),
]
C10_T = [
    H("x10_unesc_h1", "unescape on '&#x?;' with 1 symbolic ASCII byte", ["reference expanded", "malformed reference"], cost=9, timeout_thorough=3600, mem_gb=30),
    H("x10_unesc_n1", "unescape on '&#?;' with 1 symbolic ASCII byte", ["reference expanded", "malformed reference"], cost=9, timeout_thorough=3600, mem_gb=30),
    H("x10_unesc_s1b", "unescape on '&l?;' with 1 symbolic ASCII byte", ["reference expanded", "malformed reference"], cost=9, timeout_thorough=3600, mem_gb=30),
    H("x10_unesc_s1a", "unescape on '&?t;' with 1 symbolic ASCII byte (lt, gt, unknown names, nested & and ;)", ["reference expanded", "malformed reference"], cost=9, timeout_thorough=3600, mem_gb=30),
    H("x10_esc_full_end", "escape on 'a&' c with c symbolic", ["something escaped"], cost=8),
    H("x10_inv_mixed", "unescape('a&lt;b&amp;&gt;c') (concrete execution: last_end bookkeeping)", []),
]
ATTR = "one Attributes::next() from an arbitrary iterator state (hook verif_with_state; <=2 recorded keys), XML/HTML mode and duplicate checking symbolic, ASCII tag content "
C11_Q = [
    H("a11_next_n5", ATTR + "<=5 bytes, state Next(o)", ["attribute with value", "duplicate reported"], cost=6),
    H("a11_skipvalue_canon_n6", ATTR + "<=6 bytes, state SkipValue(o) of the canonical family `k = v...` (XML mode) that is reachable by construction", ["another item after a skipped unquoted value"], cost=7),
    H("a11_skipeq_canon_n8", ATTR + "<=8 bytes, state SkipEqValue(o) of the canonical family `K K =...` (HTML mode, checks on) that is reachable by construction", ["attribute after a skipped duplicate"], cost=8),
    H("a11_done_n3", ATTR + "<=3 bytes, state Done", [], cost=1),
]
C11_T = [
    H("a11_skipvalue_n5", ATTR + "<=5 bytes, state SkipValue(o)", ["attribute after a skipped unquoted value"], cost=9, timeout_thorough=3600),
    H("a11_skipeq_n8", ATTR + "<=8 bytes, state SkipEqValue(o)", ["attribute after a skipped duplicate"], cost=9, timeout_thorough=3600),
    H("a11_next_n7", ATTR + "<=7 bytes, state Next(o)", ["attribute with value", "duplicate reported"], cost=9, timeout_thorough=3600),
]

NSK = "real NamespaceResolver built from parts (hook VerifResolver): <=3 user bindings of a concrete shape (prefix/namespace lengths 0/1), contents, levels and nesting symbolic; "
C05_Q = [
    H("n5_resolve_s0", NSK + "resolve element/attribute names l, q:l, xml:l, xmlns:l; shape default,p,p-unbound", ["prefix bound through 3 bindings"], cost=3),
    H("n5_resolve_s1", NSK + "resolve; shape p,default,default-removed", ["default removed"], cost=3),
    H("n5_resolve_s2", NSK + "resolve; shape p,q,r (shadowing)", ["prefix bound through 3 bindings"], cost=3),
    H("n5_pop_s0", NSK + "pop(); shape 0", ["pop drops some and keeps some"], cost=3),
    H("n5_pop_s1", NSK + "pop(); shape 1", ["pop drops some and keeps some"], cost=3),
    H("n5_pop_s2", NSK + "pop(); shape 2", ["pop drops some and keeps some"], cost=3),
    H("n5_iter1_s0", NSK + "first item of prefixes() over 2 bindings; shape default,p", [], cost=2),
    H("n5_iter1_s4", NSK + "first item of prefixes(); shape p-unbound,q", ["first binding skipped, second listed"], cost=2),
    H("n5_iter1_s5", NSK + "first item of prefixes(); shape default-removed,p", ["first binding skipped, second listed"], cost=2),
    H("n5_iter2_s2", NSK + "first two items of prefixes(); shape p,q (shadowing when equal)", [], cost=3),
    H("n5_iter2_s4", NSK + "first two items of prefixes(); shape p-unbound,q", [], cost=3),
]
C05_T = [
    H("n5_resolve_s3", NSK + "resolve; shape default,default,p", [], cost=3),
    H("n5_pop_s3", NSK + "pop(); shape 3", [], cost=3),
    H("n5_resolve_s4", NSK + "resolve; shape p-unbound,q", [], cost=3),
]

C19_Q = [
    H("w19_start", "one Writer::write_event(start) from an arbitrary indentation state (should_line_break, depth<=200, indent char, width 0..9) vs the plain writer, through a recording sink", [], cost=1),
    H("w19_end", "one Writer::write_event(end) from an arbitrary indentation state (should_line_break, depth<=200, indent char, width 0..9) vs the plain writer, through a recording sink", [], cost=1),
    H("w19_empty", "one Writer::write_event(empty) from an arbitrary indentation state (should_line_break, depth<=200, indent char, width 0..9) vs the plain writer, through a recording sink", [], cost=1),
    H("w19_text", "one Writer::write_event(text) from an arbitrary indentation state (should_line_break, depth<=200, indent char, width 0..9) vs the plain writer, through a recording sink", [], cost=1),
    H("w19_comment", "one Writer::write_event(comment) from an arbitrary indentation state (should_line_break, depth<=200, indent char, width 0..9) vs the plain writer, through a recording sink", [], cost=1),
    H("w19_cdata", "one Writer::write_event(cdata) from an arbitrary indentation state (should_line_break, depth<=200, indent char, width 0..9) vs the plain writer, through a recording sink", [], cost=1),
    H("w19_decl", "one Writer::write_event(decl) from an arbitrary indentation state (should_line_break, depth<=200, indent char, width 0..9) vs the plain writer, through a recording sink", [], cost=1),
    H("w19_pi", "one Writer::write_event(pi) from an arbitrary indentation state (should_line_break, depth<=200, indent char, width 0..9) vs the plain writer, through a recording sink", [], cost=1),
    H("w19_doctype", "one Writer::write_event(doctype) from an arbitrary indentation state (should_line_break, depth<=200, indent char, width 0..9) vs the plain writer, through a recording sink", [], cost=1),
    H("w19_eof", "one Writer::write_event(eof) from an arbitrary indentation state (should_line_break, depth<=200, indent char, width 0..9) vs the plain writer, through a recording sink", [], cost=1),
    H("w19_start_grow", "same, Start, indent buffer of 128 and depth 110..128: growth past the preallocation", ["indent buffer grown past the preallocation"], cost=2),
    H("w19_end_grow", "same, End", [], cost=2),
    H("w19_two_starts_c124", "two Start events in a row from depth 124 with a 128-byte indent buffer (width 0..9 symbolic), then a Comment", ["indent buffer grown twice"], cost=2),
    H("w19_two_starts_c128", "same from depth 128", ["indent buffer grown twice"], cost=2),
    H("w19_comment_grow", "same, Comment", [], cost=2),
]
C19_T = [
    H("w19_two_starts_c110", "two Start events in a row from depth 110 with a 128-byte indent buffer (width 0..9 symbolic), then a Comment", [], cost=2),
    H("w19_two_starts_c119", "two Start events in a row from depth 119 with a 128-byte indent buffer (width 0..9 symbolic), then a Comment", [], cost=2),
    H("w19_two_starts_c120", "two Start events in a row from depth 120 with a 128-byte indent buffer (width 0..9 symbolic), then a Comment", ["indent buffer grown twice"], cost=2),
    H("w19_two_starts_c127", "two Start events in a row from depth 127 with a 128-byte indent buffer (width 0..9 symbolic), then a Comment", ["indent buffer grown twice"], cost=2),
]
C08_W = [
    H("w8_start_n3", "plain Writer::write_event(start) with a symbolic payload <=3 ASCII bytes into a Vec: exactly open+payload+close", [], cost=2),
    H("w8_end_n3", "plain Writer::write_event(end) with a symbolic payload <=3 ASCII bytes into a Vec: exactly open+payload+close", [], cost=2),
    H("w8_empty_n3", "plain Writer::write_event(empty) with a symbolic payload <=3 ASCII bytes into a Vec: exactly open+payload+close", [], cost=2),
    H("w8_text_n3", "plain Writer::write_event(text) with a symbolic payload <=3 ASCII bytes into a Vec: exactly open+payload+close", [], cost=2),
    H("w8_comment_n3", "plain Writer::write_event(comment) with a symbolic payload <=3 ASCII bytes into a Vec: exactly open+payload+close", [], cost=2),
    H("w8_cdata_n3", "plain Writer::write_event(cdata) with a symbolic payload <=3 ASCII bytes into a Vec: exactly open+payload+close", [], cost=2),
    H("w8_decl_n3", "plain Writer::write_event(decl) with a symbolic payload <=3 ASCII bytes into a Vec: exactly open+payload+close", [], cost=2),
    H("w8_pi_n3", "plain Writer::write_event(pi) with a symbolic payload <=3 ASCII bytes into a Vec: exactly open+payload+close", [], cost=2),
    H("w8_doctype_n3", "plain Writer::write_event(doctype) with a symbolic payload <=3 ASCII bytes into a Vec: exactly open+payload+close", [], cost=2),
    H("w8_eof_n3", "plain Writer::write_event(eof) with a symbolic payload <=3 ASCII bytes into a Vec: exactly open+payload+close", [], cost=2),
]

C08_WT = [
    H("w8_start_n6", "plain Writer::write_event(start) with a symbolic payload <=6 ASCII bytes into a Vec: exactly open+payload+close", [], cost=3),
    H("w8_end_n6", "plain Writer::write_event(end) with a symbolic payload <=6 ASCII bytes into a Vec: exactly open+payload+close", [], cost=3),
    H("w8_empty_n6", "plain Writer::write_event(empty) with a symbolic payload <=6 ASCII bytes into a Vec: exactly open+payload+close", [], cost=3),
    H("w8_text_n6", "plain Writer::write_event(text) with a symbolic payload <=6 ASCII bytes into a Vec: exactly open+payload+close", [], cost=3),
    H("w8_comment_n6", "plain Writer::write_event(comment) with a symbolic payload <=6 ASCII bytes into a Vec: exactly open+payload+close", [], cost=3),
    H("w8_cdata_n6", "plain Writer::write_event(cdata) with a symbolic payload <=6 ASCII bytes into a Vec: exactly open+payload+close", [], cost=3),
    H("w8_decl_n6", "plain Writer::write_event(decl) with a symbolic payload <=6 ASCII bytes into a Vec: exactly open+payload+close", [], cost=3),
    H("w8_pi_n6", "plain Writer::write_event(pi) with a symbolic payload <=6 ASCII bytes into a Vec: exactly open+payload+close", [], cost=3),
    H("w8_doctype_n6", "plain Writer::write_event(doctype) with a symbolic payload <=6 ASCII bytes into a Vec: exactly open+payload+close", [], cost=3),
    H("w8_eof_n6", "plain Writer::write_event(eof) with a symbolic payload <=6 ASCII bytes into a Vec: exactly open+payload+close", [], cost=3),
]

C13_Q = [
    H("c13_name_n2", "XmlName::try_from on every UTF-8 string of <=2 bytes vs the XML 1.1 Name production", ["name rejected"], crate="serde"),
    H("c13_name_n3", "XmlName::try_from on every UTF-8 string of <=3 bytes", ["long name accepted", "name rejected"], crate="serde", cost=2),
    H("c13_esc_list_t0l0", "escape_list for every 1-byte ASCII value, target Text, level Full", ["something escaped"], crate="serde", cost=5),
    H("c13_esc_list_t0l1", "escape_list for every 1-byte ASCII value, target Text, level Partial", ["something escaped"], crate="serde", cost=5),
    H("c13_esc_list_t0l2", "escape_list for every 1-byte ASCII value, target Text, level Minimal", ["something escaped"], crate="serde", cost=5),
    H("c13_esc_list_t1l0", "escape_list for every 1-byte ASCII value, target DoubleQAttr, level Full", ["something escaped"], crate="serde", cost=5),
    H("c13_esc_list_t1l1", "escape_list for every 1-byte ASCII value, target DoubleQAttr, level Partial", ["something escaped"], crate="serde", cost=5),
    H("c13_esc_list_t1l2", "escape_list for every 1-byte ASCII value, target DoubleQAttr, level Minimal", ["something escaped"], crate="serde", cost=5),
    H("c13_esc_list_t2l0", "escape_list for every 1-byte ASCII value, target SingleQAttr, level Full", ["something escaped"], crate="serde", cost=5),
    H("c13_esc_list_t2l1", "escape_list for every 1-byte ASCII value, target SingleQAttr, level Partial", ["something escaped"], crate="serde", cost=5),
    H("c13_esc_list_t2l2", "escape_list for every 1-byte ASCII value, target SingleQAttr, level Minimal", ["something escaped"], crate="serde", cost=5),
    H("c13_esc_item_t0l0", "escape_item for every 1-byte ASCII value, target Text, level Full", ["something escaped"], crate="serde", cost=5),
    H("c13_esc_item_t0l1", "escape_item for every 1-byte ASCII value, target Text, level Partial", ["something escaped"], crate="serde", cost=5),
    H("c13_esc_item_t0l2", "escape_item for every 1-byte ASCII value, target Text, level Minimal", ["something escaped"], crate="serde", cost=5),
    H("c13_esc_item_t1l0", "escape_item for every 1-byte ASCII value, target DoubleQAttr, level Full", ["something escaped"], crate="serde", cost=5),
    H("c13_esc_item_t1l1", "escape_item for every 1-byte ASCII value, target DoubleQAttr, level Partial", ["something escaped"], crate="serde", cost=5),
    H("c13_esc_item_t1l2", "escape_item for every 1-byte ASCII value, target DoubleQAttr, level Minimal", ["something escaped"], crate="serde", cost=5),
    H("c13_esc_item_t2l0", "escape_item for every 1-byte ASCII value, target SingleQAttr, level Full", ["something escaped"], crate="serde", cost=5),
    H("c13_esc_item_t2l1", "escape_item for every 1-byte ASCII value, target SingleQAttr, level Partial", ["something escaped"], crate="serde", cost=5),
    H("c13_esc_item_t2l2", "escape_item for every 1-byte ASCII value, target SingleQAttr, level Minimal", ["something escaped"], crate="serde", cost=5),
]
C13_T = [
    H("c13_name_n4", "XmlName::try_from on every UTF-8 string of <=4 bytes", ["long name accepted"], crate="serde", cost=5),
]
C17_Q = [
    H("c17_detect", "encoding::detect_encoding on every input of <=4 bytes vs the documented table", ["utf-8 bom", "utf-16le signature"], crate="enc"),
    H("c17_refine_table", "EncodingRef::can_be_refined / encoding() for each of the 4 precedence states x 4 encodings vs the documented automaton (Explicit and XmlDetected are final)", ["explicit is final", "bom can be refined"], crate="enc"),
]
C17_T = [
    H("c17_detect_n7", "encoding::detect_encoding on every input of <=7 bytes vs the documented table (bytes after the signature do not matter)", ["utf-8 bom", "utf-16le signature"], crate="enc", cost=2),
]
C07_T = [
    H("c07_s_k1", "deserialize struct S{a: String, b: Vec<String>} over scripted events: root + 1 solver-chosen inner event + tail, truncation anywhere", [], crate="serde", cost=9, timeout_thorough=5400, mem_gb=30),
]

PLAN = {
 "defaults": {"crate": "core", "timeout": 900},
 "properties": {
  "C01": {
    "quick": SCAN_Q + EMIT_Q + STEP1_Q,
    "thorough": SCAN_T + STEP1_T,
    "evidence": {
      "functions": ["ElementParser::feed", "PiParser::feed", "BangType::parse", "utils::name_len", "utils::is_whitespace",
                    "Reader::read_event_impl (read_event_impl!/read_until_close!)", "<&[u8] as XmlSource>::{remove_utf8_bom,read_text,read_with,read_bang_element,skip_whitespace,peek_one}",
                    "ReaderState::{emit_text,emit_bang,emit_end,emit_question_mark,emit_start,close_expanded_empty}"],
      "bounds": "scanners: every byte string up to 8 (quick) / 12 (thorough) bytes; reader: one step from every reader state over every remaining input of <=4 symbolic bytes (after the concrete construct openers listed per obligation), all 128 configurations; by induction over steps the number of constructs in a document is unbounded",
      "outside": "single constructs longer than the per-step bound; buffered and async sources (C02)",
      "assumptions": ["memchr replaced by a naive model (differentially tested)", "reader pre-states built through cfg(kani) hook Reader::verif_from_state under the stated representation invariant",
                      "the documented-but-unimplemented empty-Text case (trim_text_end && !trim_text_start) is excluded here and decided under C16"],
    },
  },
  "C03": {"quick": EMIT_Q + STEP1_Q, "thorough": STEP1_T, "owns_panics": True, "evidence": {}},
  "C04": {"quick": C04_Q, "thorough": C04_T, "labels": ["C04", "C16"], "evidence": {}},
  "C08": {"quick": C08_Q + C08_W, "thorough": C08_WT, "evidence": {}},
  "C19": {"quick": C19_Q, "thorough": C19_T, "evidence": {}},
  "C16": {"quick": C16_Q + [H("e_start_n8", "ReaderState::emit_start on every scanner output <=8 bytes (expansion: the remembered name)", [], cost=2)], "thorough": C16_T, "labels": ["C16", "C01"], "evidence": {}},
  "C02": {"quick": C02_Q, "thorough": C02_T, "labels": ["C02", "C01"], "evidence": {}},
  "C18": {"quick": C18_Q, "thorough": C18_T, "labels": ["C18", "C02", "C01"], "evidence": {}},
  "C05": {"quick": C05_Q, "thorough": C05_T, "evidence": {}},
  "C13": {"quick": C13_Q, "thorough": C13_T, "evidence": {}},
  "C17": {"quick": C17_Q, "thorough": C17_T, "evidence": {}},
  "C10": {"quick": C10_Q, "thorough": C10_T, "evidence": {}},
  "C11": {"quick": C11_Q, "thorough": C11_T, "evidence": {}},
 },
}


# pseudo-property used only by bin/thorough-validate: every thorough-only obligation once, to find out which
# of them finish within their budget on this machine (those that do not are removed from the thorough lists)
_TH = []
for _k, _v in list(PLAN["properties"].items()):
    for _h in _v.get("thorough", []):
        _TH.append(dict(_h, timeout=min(_h.get("timeout_thorough", 2700), 1800), covers=[]))
_seen = set()
_TH = [h for h in _TH if not (h["harness"] in _seen or _seen.add(h["harness"]))]
PLAN["properties"]["_TH"] = {"quick": _TH, "thorough": [], "owns_panics": True,
                             "labels": ["C%02d" % i for i in range(1, 21)], "evidence": {}}
