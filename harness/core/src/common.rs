//! Shared plumbing: one `check_*` function is used both by the Kani harness (input = `kani::any()`
//! raw bytes) and by the native replayer (input = the raw bytes of a counterexample).
//!
//! * `ensure!(cond, "label")`  — an assertion of the property. Under Kani it is a CBMC property
//!   with the label as description; natively it makes the check return `Outcome::Fail(label)`.
//! * `require!(cond)`          — an assumption (input validity / representation invariant).
//!   Under Kani `kani::assume`; natively the check returns `Outcome::Skip`.
//! * `witness!(cond, "label")` — vacuity guard: `kani::cover!`; natively counted in `COVERED`.
//! * `forall_idx!(i < n => { .. })` — loop-free universal quantification: the solver picks `i`;
//!   natively a real loop.

#[derive(Clone, Copy, Debug, PartialEq, Eq)]
pub enum Outcome {
    /// every asserted clause held on this input
    Pass,
    /// the input is outside the assumed domain (a `require!` failed)
    Skip,
    /// the clause with this label is violated
    Fail(&'static str),
}

#[cfg(kani)]
#[macro_export]
macro_rules! ensure {
    ($c:expr, $l:literal) => {
        assert!($c, $l)
    };
}
#[cfg(not(kani))]
#[macro_export]
macro_rules! ensure {
    ($c:expr, $l:literal) => {
        if !($c) {
            return $crate::common::Outcome::Fail($l);
        }
    };
}

#[cfg(kani)]
#[macro_export]
macro_rules! require {
    ($c:expr) => {
        kani::assume($c)
    };
}
#[cfg(not(kani))]
#[macro_export]
macro_rules! require {
    ($c:expr) => {
        if !($c) {
            return $crate::common::Outcome::Skip;
        }
    };
}

#[cfg(kani)]
#[macro_export]
macro_rules! witness {
    ($c:expr, $l:literal) => {
        kani::cover!($c, $l)
    };
}
#[cfg(not(kani))]
#[macro_export]
macro_rules! witness {
    ($c:expr, $l:literal) => {
        if $c {
            $crate::common::note_witness($l);
        }
    };
}

#[cfg(kani)]
#[macro_export]
macro_rules! forall_idx {
    ($i:ident < $n:expr => $body:block) => {{
        let $i: usize = kani::any();
        if $i < $n $body
    }};
}
#[cfg(not(kani))]
#[macro_export]
macro_rules! forall_idx {
    ($i:ident < $n:expr => $body:block) => {{
        let mut $i: usize = 0;
        let __n: usize = $n;
        while $i < __n {
            $body
            $i += 1;
        }
    }};
}

#[cfg(not(kani))]
thread_local! {
    pub static WITNESSES: std::cell::RefCell<Vec<&'static str>> = std::cell::RefCell::new(Vec::new());
}
#[cfg(not(kani))]
pub fn note_witness(l: &'static str) {
    WITNESSES.with(|w| {
        let mut w = w.borrow_mut();
        if !w.contains(&l) {
            w.push(l)
        }
    });
}

/// Cursor over the raw input bytes of a check.
pub struct Raw<'a> {
    b: &'a [u8],
    p: usize,
}
impl<'a> Raw<'a> {
    pub fn new(b: &'a [u8]) -> Self {
        Self { b, p: 0 }
    }
    #[inline]
    pub fn u8(&mut self) -> u8 {
        let v = if self.p < self.b.len() { self.b[self.p] } else { 0 };
        self.p += 1;
        v
    }
    #[inline]
    pub fn bool(&mut self) -> bool {
        self.u8() & 1 == 1
    }
    #[inline]
    pub fn arr<const N: usize>(&mut self) -> [u8; N] {
        let mut a = [0u8; N];
        let mut i = 0;
        while i < N {
            a[i] = self.u8();
            i += 1;
        }
        a
    }
    #[inline]
    pub fn u16(&mut self) -> u16 {
        let lo = self.u8() as u16;
        let hi = self.u8() as u16;
        lo | (hi << 8)
    }
    #[inline]
    pub fn u32(&mut self) -> u32 {
        let lo = self.u16() as u32;
        let hi = self.u16() as u32;
        lo | (hi << 16)
    }
}

#[inline]
pub fn is_ws(b: u8) -> bool {
    b == 0x20 || b == 0x09 || b == 0x0A || b == 0x0D
}
