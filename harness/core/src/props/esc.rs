//! C10: escaping / unescaping kernels.

use crate::common::*;
use crate::{ensure, forall_idx, require, witness};
use quick_xml::escape::{escape, minimal_escape, partial_escape, unescape};
use std::borrow::Cow;

fn as_str(b: &[u8]) -> &str {
    // callers guarantee 7-bit bytes
    unsafe { core::str::from_utf8_unchecked(b) }
}

/// K4: every numeric character reference. raw: [hex, nzeros, ndigits, digits[8]]
/// The number string is `x`? `0`{nzeros} digit{ndigits}; digits are arbitrary ASCII bytes so that
/// non-digits, signs and case variants are all inside the space.
pub fn check_parse_number(raw: &[u8]) -> Outcome {
    let mut r = Raw::new(raw);
    let hex = r.bool();
    let nzeros = r.u8() as usize;
    let nd = r.u8() as usize;
    let d: [u8; 8] = r.arr();
    require!(nzeros <= 2 && nd <= 8);
    // a decimal-form string must not start with `x` (that IS the hexadecimal form, taken by `hex`)
    require!(hex || nzeros > 0 || nd == 0 || d[0] != b'x');
    let mut buf = [0u8; 11];
    let mut n = 0;
    if hex {
        buf[n] = b'x';
        n += 1;
    }
    let mut i = 0;
    while i < 2 {
        if i < nzeros {
            buf[n] = b'0';
            n += 1;
        }
        i += 1;
    }
    i = 0;
    while i < 8 {
        if i < nd {
            require!(d[i] < 0x80);
            buf[n] = d[i];
            n += 1;
        }
        i += 1;
    }
    let s = as_str(&buf[..n]);

    // reference: value of the digit string, if it is one
    let radix: u64 = if hex { 16 } else { 10 };
    let mut ok = nzeros + nd > 0;
    let mut val: u64 = 0;
    i = 0;
    while i < 8 {
        if i < nd {
            let c = d[i];
            let dv: u64 = if c >= b'0' && c <= b'9' {
                (c - b'0') as u64
            } else if hex && c >= b'a' && c <= b'f' {
                (c - b'a') as u64 + 10
            } else if hex && c >= b'A' && c <= b'F' {
                (c - b'A') as u64 + 10
            } else {
                ok = false;
                0
            };
            val = val * radix + dv;
        }
        i += 1;
    }
    let scalar = ok && val != 0 && val <= 0x10FFFF && !(val >= 0xD800 && val <= 0xDFFF);

    let got = quick_xml::escape::verif_parse_number(s);
    match &got {
        Ok(c) => {
            ensure!(scalar, "C10: a reference that is not a non-zero scalar value is an error");
            ensure!(*c as u32 as u64 == val, "C10: a numeric reference gives exactly its character");
        }
        Err(_) => {
            ensure!(!scalar, "C10: every numeric reference of a valid non-zero scalar value is accepted");
        }
    }
    witness!(scalar && val > 0xFFFF, "supplementary plane character");
    witness!(ok && val >= 0xD800 && val <= 0xDFFF, "surrogate rejected");
    witness!(ok && val > 0x10FFFF, "out of range rejected");
    core::mem::forget(got);
    Outcome::Pass
}

/// reference expansion of a named entity
fn named(b: &[u8]) -> Option<u8> {
    match b {
        b"lt" => Some(b'<'),
        b"gt" => Some(b'>'),
        b"amp" => Some(b'&'),
        b"apos" => Some(b'\''),
        b"quot" => Some(b'"'),
        _ => None,
    }
}

/// reference: value of `#...` (without `#`); None = not a valid reference
fn charref(b: &[u8]) -> Option<u32> {
    let (radix, digits): (u64, &[u8]) = if b.len() > 0 && b[0] == b'x' { (16, &b[1..]) } else { (10, b) };
    if digits.len() == 0 {
        return None;
    }
    let mut v: u64 = 0;
    let mut i = 0;
    while i < digits.len() {
        let c = digits[i];
        let dv = if c >= b'0' && c <= b'9' {
            (c - b'0') as u64
        } else if radix == 16 && c >= b'a' && c <= b'f' {
            (c - b'a') as u64 + 10
        } else if radix == 16 && c >= b'A' && c <= b'F' {
            (c - b'A') as u64 + 10
        } else {
            return None;
        };
        v = v * radix + dv;
        if v > 0x10FFFF {
            return None;
        }
        i += 1;
    }
    if v == 0 || (v >= 0xD800 && v <= 0xDFFF) {
        None
    } else {
        Some(v as u32)
    }
}

/// Reference unescape into a fixed buffer. Returns None when the text is not well-formed
/// (`&` without `;`, unknown name, bad number); `had_amp` tells whether any `&` was seen.
fn ref_unescape<const N: usize>(b: &[u8]) -> (Option<([u8; N], usize)>, bool) {
    let mut out = [0u8; N];
    let mut n = 0;
    let mut i = 0;
    let mut had = false;
    while i < b.len() {
        if b[i] != b'&' {
            out[n] = b[i];
            n += 1;
            i += 1;
            continue;
        }
        had = true;
        // the name runs to the next `;`; another `&` before it means the reference is not terminated
        let mut j = i + 1;
        while j < b.len() && b[j] != b';' && b[j] != b'&' {
            j += 1;
        }
        if j >= b.len() || b[j] != b';' {
            return (None, had);
        }
        let name = &b[i + 1..j];
        if name.len() > 0 && name[0] == b'#' {
            match charref(&name[1..]) {
                None => return (None, had),
                Some(c) => {
                    // ASCII inputs of <= N bytes can only spell code points < 0x80 here when N <= 5
                    // (`&#xHH;` is 6 bytes); longer ones are encoded generally
                    let ch = char::from_u32(c).unwrap();
                    let mut tmp = [0u8; 4];
                    let enc = ch.encode_utf8(&mut tmp).as_bytes();
                    let mut k = 0;
                    while k < enc.len() {
                        out[n] = enc[k];
                        n += 1;
                        k += 1;
                    }
                }
            }
        } else {
            match named(name) {
                None => return (None, had),
                Some(c) => {
                    out[n] = c;
                    n += 1;
                }
            }
        }
        i = j + 1;
    }
    (Some((out, n)), had)
}

/// K2: `unescape` on every ASCII string of <= N bytes. raw: [len, bytes[N]]
pub fn check_unescape<const N: usize>(raw: &[u8]) -> Outcome {
    let mut r = Raw::new(raw);
    let len = r.u8() as usize;
    let bytes: [u8; N] = r.arr();
    require!(len <= N);
    let mut i = 0;
    while i < N {
        require!(bytes[i] < 0x80);
        i += 1;
    }
    let b = &bytes[..len];
    let s = as_str(b);
    let got = unescape(s);
    let (want, had_amp) = ref_unescape::<N>(b);
    match (&got, &want) {
        (Ok(t), Some((out, n))) => {
            let t = t.as_bytes();
            ensure!(t.len() == *n, "C10: unescape expands exactly the references (length)");
            forall_idx!(j < *n => {
                ensure!(t[j] == out[j], "C10: unescape expands exactly the references");
            });
        }
        (Err(_), None) => {}
        (Ok(_), None) => {
            ensure!(false, "C10: a malformed or unknown reference is an error, not a character");
        }
        (Err(_), Some(_)) => {
            ensure!(false, "C10: well-formed references unescape without error");
        }
    }
    if !had_amp {
        ensure!(matches!(got, Ok(Cow::Borrowed(_))), "C10: a string without '&' is returned unchanged and borrowed");
    }
    witness!(want.is_some() && had_amp, "reference expanded");
    witness!(want.is_none(), "malformed reference");
    core::mem::forget(got);
    Outcome::Pass
}

fn level_fn(level: u8, s: &str) -> Cow<str> {
    match level {
        0 => escape(s),
        1 => partial_escape(s),
        _ => minimal_escape(s),
    }
}
fn forbidden(level: u8, c: u8) -> bool {
    match level {
        0 => c == b'<' || c == b'>' || c == b'&' || c == b'\'' || c == b'"',
        1 => c == b'<' || c == b'>' || c == b'&',
        _ => c == b'<' || c == b'&',
    }
}
fn table(c: u8) -> &'static [u8] {
    match c {
        b'<' => b"&lt;",
        b'>' => b"&gt;",
        b'&' => b"&amp;",
        b'\'' => b"&apos;",
        _ => b"&quot;",
    }
}

/// K1 + K3: escaping of a string with ONE symbolic 7-bit byte at position `at` of the concrete
/// template `tpl` (other bytes concrete), at the given level: output is the table image, contains none
/// of the level's characters except inside the produced references, borrowed iff nothing replaced, and
/// unescapes back to the input. raw: [byte]
pub fn check_escape1(raw: &[u8], level: u8, tpl: &'static [u8], at: usize) -> Outcome {
    let c = raw[0];
    require!(c < 0x80);
    let mut buf = [0u8; 8];
    let n = tpl.len();
    let mut i = 0;
    while i < n {
        buf[i] = if i == at { c } else { tpl[i] };
        i += 1;
    }
    let s = as_str(&buf[..n]);
    let out = level_fn(level, s);
    let o = out.as_bytes();
    // reference image
    let mut want = [0u8; 48];
    let mut w = 0;
    let mut replaced = false;
    i = 0;
    while i < n {
        let ch = buf[i];
        if forbidden(level, ch) {
            let t = table(ch);
            let mut k = 0;
            while k < t.len() {
                want[w] = t[k];
                w += 1;
                k += 1;
            }
            replaced = true;
        } else {
            want[w] = ch;
            w += 1;
        }
        i += 1;
    }
    ensure!(o.len() == w, "C10: escaping replaces exactly the characters of its level (length)");
    forall_idx!(j < w => {
        ensure!(o[j] == want[j], "C10: escaping replaces exactly the characters of its level");
    });
    forall_idx!(j < o.len() => {
        ensure!(!forbidden(level, o[j]) || o[j] == b'&', "C10: escaped form contains none of the characters the level removes");
    });
    ensure!(matches!(out, Cow::Borrowed(_)) == !replaced, "C10: escaping borrows iff nothing was replaced");
    witness!(replaced, "something escaped");
    core::mem::forget(out);
    Outcome::Pass
}

/// K3 (inverse), by composition: the escaped form of a character is the character itself (K2 on strings
/// without `&`) or one of the five references of the table (K1); each of those unescapes to its character.
/// `which` selects the concrete reference. No symbolic input: this is a concrete execution.
pub fn check_unescape_entity(_raw: &[u8], which: u8) -> Outcome {
    let (text, want): (&str, &[u8]) = match which {
        0 => ("&lt;", b"<"),
        1 => ("&gt;", b">"),
        2 => ("&amp;", b"&"),
        3 => ("&apos;", b"'"),
        4 => ("&quot;", b"\""),
        5 => ("a&lt;b&amp;&gt;c", b"a<b&>c"),
        6 => ("&#9;&#10;&#13;&#32;", b"\t\n\r "),
        _ => ("&#x3C;&#60;", b"<<"),
    };
    let back = unescape(text);
    match &back {
        Ok(t) => {
            let t = t.as_bytes();
            ensure!(t.len() == want.len(), "C10: unescape(escape(s)) == s (length)");
            forall_idx!(j < want.len() => {
                ensure!(t[j] == want[j], "C10: unescape(escape(s)) == s");
            });
        }
        Err(_) => {
            ensure!(false, "C10: the escaped form unescapes without error");
        }
    }
    core::mem::forget(back);
    Outcome::Pass
}

/// K2 on a concrete shape: `tpl` with `?` replaced by symbolic 7-bit bytes (at most 4 of them).
/// raw: [4 bytes]
pub fn check_unescape_shape(raw: &[u8], tpl: &'static [u8]) -> Outcome {
    let mut buf = [0u8; 8];
    let n = tpl.len();
    let mut k = 0;
    let mut i = 0;
    while i < n {
        if tpl[i] == b'?' {
            require!(raw[k] < 0x80);
            buf[i] = raw[k];
            k += 1;
        } else {
            buf[i] = tpl[i];
        }
        i += 1;
    }
    let b = &buf[..n];
    let got = unescape(as_str(b));
    let (want, _) = ref_unescape::<8>(b);
    match (&got, &want) {
        (Ok(t), Some((out, m))) => {
            let t = t.as_bytes();
            ensure!(t.len() == *m, "C10: unescape expands exactly the references (length)");
            forall_idx!(j < *m => {
                ensure!(t[j] == out[j], "C10: unescape expands exactly the references");
            });
        }
        (Err(_), None) => {}
        (Ok(_), None) => {
            ensure!(false, "C10: a malformed or unknown reference is an error, not a character");
        }
        (Err(_), Some(_)) => {
            ensure!(false, "C10: well-formed references unescape without error");
        }
    }
    witness!(want.is_some(), "reference expanded");
    witness!(want.is_none(), "malformed reference");
    core::mem::forget(got);
    Outcome::Pass
}

/// K1 for non-ASCII text: every 2-byte UTF-8 scalar (U+0080..U+07FF) passes through every level
/// untouched and borrowed (escaping looks at bytes; a multi-byte character never contains a special byte).
/// raw: [b0, b1]
pub fn check_escape_u2(raw: &[u8], level: u8) -> Outcome {
    let b0 = raw[0];
    let b1 = raw[1];
    require!(b0 >= 0xC2 && b0 <= 0xDF && b1 >= 0x80 && b1 <= 0xBF);
    let buf = [b'a', b0, b1];
    let s = as_str(&buf);
    let out = level_fn(level, s);
    ensure!(matches!(out, Cow::Borrowed(_)), "C10: escaping borrows iff nothing was replaced");
    let o = out.as_bytes();
    ensure!(o.len() == 3 && o[0] == b'a' && o[1] == b0 && o[2] == b1, "C10: escaping replaces exactly the characters of its level");
    core::mem::forget(out);
    Outcome::Pass
}

/// K1 for non-ASCII text, concrete lead byte(s) and ONE symbolic continuation byte: the characters
/// U+0100..U+013F (`lead` = C4) or U+2000..U+203F (`lead` = E2 80) pass through untouched and borrowed.
/// (Escaping must look at bytes: a code point whose LOW byte equals a special character, e.g. U+013C or
/// U+2026, is not that character.) raw: [x]
pub fn check_escape_lead(raw: &[u8], level: u8, three: bool) -> Outcome {
    let x = raw[0];
    require!(x >= 0x80 && x <= 0xBF);
    let b2 = [0xC4, x];
    let b3 = [0xE2, 0x80, x];
    let buf: &[u8] = if three { &b3 } else { &b2 };
    let s = as_str(buf);
    let out = level_fn(level, s);
    ensure!(matches!(out, Cow::Borrowed(_)), "C10: escaping borrows iff nothing was replaced");
    let o = out.as_bytes();
    ensure!(o.len() == buf.len(), "C10: escaping replaces exactly the characters of its level (length)");
    forall_idx!(j < buf.len() => {
        ensure!(o[j] == buf[j], "C10: escaping replaces exactly the characters of its level");
    });
    core::mem::forget(out);
    Outcome::Pass
}
