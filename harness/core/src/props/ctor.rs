//! C09 kernels: what the public event constructors put into an event. Together with the writer's
//! delimiter table (`check_writer_table`), the escaping kernels (C10), the attribute scanner (C11) and the
//! reader step (C01) these compose to "built events are read back identical"; the composition itself is
//! argued in DESIGN.md 10.9, not decided by one query.

use crate::common::*;
use crate::{ensure, forall_idx, require, witness};
use quick_xml::events::attributes::Attribute;
use quick_xml::events::{BytesCData, BytesDecl, BytesStart, BytesText};

fn as_str(b: &[u8]) -> &str {
    unsafe { core::str::from_utf8_unchecked(b) }
}

fn table(c: u8) -> &'static [u8] {
    match c {
        b'<' => b"&lt;",
        b'>' => b"&gt;",
        b'&' => b"&amp;",
        b'\'' => b"&apos;",
        b'"' => b"&quot;",
        _ => b"",
    }
}

/// `BytesCData::escaped(s)`: the pieces concatenate to `s`, no piece contains `]]>`, and a piece followed
/// by the writer's `]]>` is terminated exactly there. raw: [len, bytes[N]] (7-bit)
pub fn check_cdata_split<const N: usize>(raw: &[u8]) -> Outcome {
    let mut r = Raw::new(raw);
    let len = r.u8() as usize;
    let bytes: [u8; N] = r.arr();
    require!(len <= N);
    let mut i = 0;
    while i < N {
        require!(bytes[i] < 0x80);
        i += 1;
    }
    let s = as_str(&bytes[..len]);
    let mut it = BytesCData::escaped(s);
    let mut off = 0usize;
    let mut pieces = 0usize;
    let mut k = 0;
    // at most one piece per `]]>` plus one: N/3 + 1 <= 3 for N <= 6; one more call must return None
    while k < 4 {
        match it.next() {
            None => {}
            Some(p) => {
                let c: &[u8] = &p;
                pieces += 1;
                ensure!(off + c.len() <= len, "C09: CDATA pieces are parts of the content");
                forall_idx!(j < c.len() => {
                    ensure!(c[j] == bytes[off + j], "C09: CDATA pieces concatenate to the content");
                });
                // no terminator inside the piece
                forall_idx!(j < c.len() => {
                    if j + 2 < c.len() {
                        ensure!(!(c[j] == b']' && c[j + 1] == b']' && c[j + 2] == b'>'), "C09: no CDATA piece contains ]]>");
                    }
                });
                // ... and the piece does not start with `>` after a piece ending in `]]` only when split there:
                // piece ++ "]]>" has its first "]]>" at the end
                if c.len() >= 1 {
                    ensure!(!(c.len() >= 2 && c[c.len() - 1] == b'>' && c[c.len() - 2] == b']' && c.len() >= 3 && c[c.len() - 3] == b']'), "C09: no CDATA piece contains ]]>");
                }
                off += c.len();
                core::mem::forget(p);
            }
        }
        k += 1;
    }
    ensure!(off == len, "C09: CDATA pieces cover the whole content");
    ensure!(pieces >= 1, "C09: even empty content gives one CDATA section");
    witness!(pieces >= 2, "content split at ]]>");
    Outcome::Pass
}

/// `BytesStart::new(n).push_attribute((k, v))`: content is `n k="` + escaped v + `"`, the name is untouched.
/// raw: [n, k, v]
pub fn check_push_attribute(raw: &[u8]) -> Outcome {
    let n = raw[0];
    let k = raw[1];
    let v = raw[2];
    require!(n < 0x80 && k < 0x80 && v < 0x80);
    require!(!is_ws(n) && n != b'>' && n != b'/' && !is_ws(k) && k != b'=' && k != b'>');
    let nb = [n];
    let kb = [k];
    let vb = [v];
    let mut e = BytesStart::new(as_str(&nb));
    e.push_attribute((as_str(&kb), as_str(&vb)));
    let c: &[u8] = &e;
    let esc = table(v);
    let vlen = if esc.len() == 0 { 1 } else { esc.len() };
    ensure!(c.len() == 1 + 1 + 1 + 2 + vlen + 1, "C09: a pushed attribute is written as ` key=\"value\"`");
    ensure!(c[0] == n && c[1] == b' ' && c[2] == k && c[3] == b'=' && c[4] == b'"' && c[c.len() - 1] == b'"', "C09: a pushed attribute is written as ` key=\"value\"`");
    if esc.len() == 0 {
        ensure!(c[5] == v, "C09: an attribute value without special characters is written unchanged");
    } else {
        forall_idx!(j < esc.len() => {
            ensure!(c[5 + j] == esc[j], "C09: special characters of a pushed attribute value are escaped");
        });
    }
    ensure!(e.name().as_ref().len() == 1 && e.name().as_ref()[0] == n, "C09: pushing an attribute does not touch the name");
    // Attribute::from((k, v)) escapes the same way
    let a: Attribute = (as_str(&kb), as_str(&vb)).into();
    let av: &[u8] = &a.value;
    ensure!(av.len() == vlen, "C09: Attribute::from escapes the value");
    witness!(esc.len() > 0, "value escaped");
    core::mem::forget(a);
    core::mem::forget(e);
    Outcome::Pass
}

/// In-place edits keep the name length consistent with the buffer: `set_name` replaces exactly the name,
/// `clear_attributes` leaves exactly the name. raw: [a, b, x, y, newlen]
pub fn check_set_name(raw: &[u8]) -> Outcome {
    let a = raw[0];
    let b = raw[1];
    let x = raw[2];
    let y = raw[3];
    let newlen = (raw[4] % 2) as usize + 1;
    require!(a < 0x80 && b < 0x80 && x < 0x80 && y < 0x80);
    let content = [a, b, b' ', b'k', b'=', b'"', b'v', b'"'];
    let mut e = BytesStart::from_content(as_str(&content), 2);
    let nn = [x, y];
    e.set_name(&nn[..newlen]);
    let nm = e.name();
    ensure!(nm.as_ref().len() == newlen && nm.as_ref()[0] == x, "C09: set_name replaces exactly the name");
    let rawattrs = e.attributes_raw();
    ensure!(rawattrs.len() == 6 && rawattrs[0] == b' ' && rawattrs[1] == b'k' && rawattrs[5] == b'"', "C09: set_name keeps the attributes");
    e.clear_attributes();
    let c: &[u8] = &e;
    ensure!(c.len() == newlen && c[0] == x, "C09: clear_attributes leaves exactly the name");
    witness!(newlen == 1, "name shortened");
    core::mem::forget(e);
    Outcome::Pass
}

/// `BytesDecl::new(version, encoding?, standalone?)` assembles the documented pseudo-attributes.
/// raw: [v, e, s, flags]
pub fn check_decl_new(raw: &[u8]) -> Outcome {
    let v = raw[0];
    let e = raw[1];
    let s = raw[2];
    let has_e = raw[3] & 1 != 0;
    let has_s = raw[3] & 2 != 0;
    require!(v < 0x80 && e < 0x80 && s < 0x80);
    let vb = [v];
    let eb = [e];
    let sb = [s];
    let d = BytesDecl::new(as_str(&vb), if has_e { Some(as_str(&eb)) } else { None }, if has_s { Some(as_str(&sb)) } else { None });
    let c: &[u8] = &d;
    let mut want = [0u8; 48];
    let mut w = 0;
    let mut put = |bytes: &[u8], want: &mut [u8; 48], w: &mut usize| {
        let mut i = 0;
        while i < bytes.len() {
            want[*w] = bytes[i];
            *w += 1;
            i += 1;
        }
    };
    put(b"xml version=\"", &mut want, &mut w);
    put(&vb, &mut want, &mut w);
    if has_e {
        put(b"\" encoding=\"", &mut want, &mut w);
        put(&eb, &mut want, &mut w);
    }
    if has_s {
        put(b"\" standalone=\"", &mut want, &mut w);
        put(&sb, &mut want, &mut w);
    }
    put(b"\"", &mut want, &mut w);
    ensure!(c.len() == w, "C09: BytesDecl::new assembles version, encoding and standalone (length)");
    forall_idx!(j < w => {
        ensure!(c[j] == want[j], "C09: BytesDecl::new assembles version, encoding and standalone");
    });
    core::mem::forget(d);
    Outcome::Pass
}

/// `BytesText::new(s)` holds the escaped text. raw: [c]
pub fn check_text_new(raw: &[u8]) -> Outcome {
    let c = raw[0];
    require!(c < 0x80);
    let cb = [c];
    let t = BytesText::new(as_str(&cb));
    let o: &[u8] = &t;
    let esc = table(c);
    // BytesText::new uses the full escape
    if esc.len() == 0 {
        ensure!(o.len() == 1 && o[0] == c, "C09: text without special characters is stored unchanged");
    } else {
        ensure!(o.len() == esc.len(), "C09: BytesText::new escapes the text");
        forall_idx!(j < esc.len() => {
            ensure!(o[j] == esc[j], "C09: BytesText::new escapes the text");
        });
    }
    witness!(esc.len() > 0, "text escaped");
    core::mem::forget(t);
    Outcome::Pass
}
