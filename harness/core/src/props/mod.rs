pub mod scan;
pub mod step;
pub mod bufstep;
pub mod cfgdiff;
pub mod attr;
pub mod esc;
pub mod ns;
pub mod writer;
