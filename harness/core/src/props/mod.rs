pub mod scan;
pub mod step;
