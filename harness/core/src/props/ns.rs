//! C05: namespace scopes. Kernels on the real `NamespaceResolver` (through the `VerifResolver` hook)
//! against a reference scope stack, plus the inductive link between scope depth and element depth
//! for every consumer call of `NsReader`.

use crate::common::*;
use crate::refmodel::tok::*;
use crate::{ensure, forall_idx, require, witness};
use quick_xml::events::{BytesStart, Event};
use quick_xml::name::{Namespace, PrefixDeclaration, QName, ResolveResult, VerifResolver};
use quick_xml::reader::{NsReader, Reader};

/// Concrete SHAPES of the user bindings (prefix length, namespace length); contents symbolic.
pub const SHAPES: [[(usize, usize); 3]; 6] = [
    [(0, 1), (1, 1), (1, 0)], // default; p; p unbound
    [(1, 1), (0, 1), (0, 0)], // p; default; default removed
    [(1, 1), (1, 1), (1, 1)], // shadowing / siblings
    [(0, 1), (0, 1), (1, 1)], // default re-declared; p
    [(1, 0), (1, 1), (0, 1)], // p unbound first; q; default
    [(0, 0), (1, 1), (0, 1)], // default removed first; p; default again
];

struct Model {
    p: [[u8; 1]; 3],
    u: [[u8; 1]; 3],
    pl: [usize; 3],
    ul: [usize; 3],
    level: [i32; 3],
    n: usize,
}

impl Model {
    /// nearest binding of this prefix (None = default), searching the innermost scope first
    fn lookup(&self, prefix: Option<u8>) -> Option<usize> {
        let mut i = self.n;
        while i > 0 {
            i -= 1;
            let same = match prefix {
                None => self.pl[i] == 0,
                Some(c) => self.pl[i] == 1 && self.p[i][0] == c,
            };
            if same {
                return Some(i);
            }
        }
        None
    }
}

fn build(raw: &mut Raw, shape: usize) -> (Model, i32) {
    let n = (raw.u8() % 4) as usize;
    let mut m = Model { p: [[0]; 3], u: [[0]; 3], pl: [0; 3], ul: [0; 3], level: [0; 3], n };
    let mut i = 0;
    while i < 3 {
        m.p[i][0] = raw.u8();
        m.u[i][0] = raw.u8();
        m.pl[i] = SHAPES[shape][i].0;
        m.ul[i] = SHAPES[shape][i].1;
        m.level[i] = (raw.u8() % 3) as i32 + 1;
        i += 1;
    }
    let nesting = (raw.u8() % 4) as i32;
    (m, nesting)
}

fn valid(m: &Model, nesting: i32) -> bool {
    // levels do not decrease along the list and do not exceed the nesting level; prefixes are
    // name characters (no ':'), declared prefixes are not `xml`/`xmlns` (1 byte cannot be)
    let mut i = 0;
    let mut prev = 1;
    while i < 3 {
        if i < m.n {
            if m.level[i] < prev || m.level[i] > nesting {
                return false;
            }
            if m.pl[i] == 1 && (m.p[i][0] == b':' || is_ws(m.p[i][0]) || m.p[i][0] == b'=') {
                return false;
            }
            // a scope declares a prefix at most once (duplicate attributes are not well-formed)
            let mut j = 0;
            while j < i {
                if m.level[j] == m.level[i] && m.pl[j] == m.pl[i] && (m.pl[i] == 0 || m.p[j][0] == m.p[i][0]) {
                    return false;
                }
                j += 1;
            }
            prev = m.level[i];
        }
        i += 1;
    }
    true
}

fn real(m: &Model, nesting: i32) -> VerifResolver {
    let e0: (&[u8], &[u8], i32) = (&m.p[0][..m.pl[0]], &m.u[0][..m.ul[0]], m.level[0]);
    let e1: (&[u8], &[u8], i32) = (&m.p[1][..m.pl[1]], &m.u[1][..m.ul[1]], m.level[1]);
    let e2: (&[u8], &[u8], i32) = (&m.p[2][..m.pl[2]], &m.u[2][..m.ul[2]], m.level[2]);
    match m.n {
        0 => VerifResolver::from_parts(&[], nesting),
        1 => VerifResolver::from_parts(&[e0], nesting),
        2 => VerifResolver::from_parts(&[e0, e1], nesting),
        _ => VerifResolver::from_parts(&[e0, e1, e2], nesting),
    }
}

/// K: resolve an element / attribute name in an arbitrary scope stack.
/// raw: [n, (p,u,level)x3, nesting, probe_kind, probe_prefix, attr]
pub fn check_ns_resolve(raw: &[u8], shape: usize) -> Outcome {
    let mut r = Raw::new(raw);
    let (m, nesting) = build(&mut r, shape);
    let kind = r.u8() % 4; // 0: `l`  1: `q:l`  2: `xml:l`  3: `xmlns:l`
    let q = r.u8();
    let attr = r.bool();
    require!(valid(&m, nesting));
    require!(q != b':' && !is_ws(q));
    let res = real(&m, nesting);

    let n1 = [b'l'];
    let n2 = [q, b':', b'l'];
    let name: &[u8] = match kind {
        0 => &n1,
        1 => &n2,
        2 => b"xml:l",
        _ => b"xmlns:l",
    };
    let (got, local) = res.resolve(QName(name), !attr);
    ensure!(local.as_ref().len() == 1 && local.as_ref()[0] == b'l', "C05: local name is what follows the prefix");
    match kind {
        0 => {
            if attr {
                ensure!(matches!(got, ResolveResult::Unbound), "C05: unprefixed attributes are never in the default namespace");
            } else {
                match m.lookup(None) {
                    Some(i) if m.ul[i] == 1 => match &got {
                        ResolveResult::Bound(Namespace(ns)) => {
                            ensure!(ns.len() == 1 && ns[0] == m.u[i][0], "C05: default namespace is the nearest declaration");
                        }
                        _ => {
                            ensure!(false, "C05: default namespace is the nearest declaration");
                        }
                    },
                    _ => {
                        ensure!(matches!(got, ResolveResult::Unbound), "C05: xmlns=\"\" removes the default namespace");
                    }
                }
            }
        }
        1 => match m.lookup(Some(q)) {
            Some(i) if m.ul[i] == 1 => match &got {
                ResolveResult::Bound(Namespace(ns)) => {
                    ensure!(ns.len() == 1 && ns[0] == m.u[i][0], "C05: prefix resolves to the nearest declaration");
                }
                _ => {
                    ensure!(false, "C05: prefix resolves to the nearest declaration");
                }
            },
            Some(_) => match &got {
                ResolveResult::Unknown(p) => {
                    ensure!(p.len() == 1 && p[0] == q, "C05: xmlns:p=\"\" makes p unknown");
                }
                _ => {
                    ensure!(false, "C05: xmlns:p=\"\" makes p unknown");
                }
            },
            None => match &got {
                ResolveResult::Unknown(p) => {
                    ensure!(p.len() == 1 && p[0] == q, "C05: an undeclared prefix is reported as unknown");
                }
                _ => {
                    ensure!(false, "C05: an undeclared prefix is reported as unknown");
                }
            },
        },
        2 => match &got {
            ResolveResult::Bound(Namespace(ns)) => {
                let want: &[u8] = b"http://www.w3.org/XML/1998/namespace";
                ensure!(ns.len() == want.len(), "C05: the xml prefix is pre-bound");
                forall_idx!(j < want.len() => {
                    ensure!(ns[j] == want[j], "C05: the xml prefix is pre-bound");
                });
            }
            _ => {
                ensure!(false, "C05: the xml prefix is pre-bound");
            }
        },
        _ => match &got {
            ResolveResult::Bound(Namespace(ns)) => {
                let want: &[u8] = b"http://www.w3.org/2000/xmlns/";
                ensure!(ns.len() == want.len(), "C05: the xmlns prefix is pre-bound");
                forall_idx!(j < want.len() => {
                    ensure!(ns[j] == want[j], "C05: the xmlns prefix is pre-bound");
                });
            }
            _ => {
                ensure!(false, "C05: the xmlns prefix is pre-bound");
            }
        },
    }
    witness!(kind == 1 && matches!(got, ResolveResult::Bound(_)) && m.n == 3, "prefix bound through 3 bindings");
    witness!(kind == 0 && !attr && matches!(got, ResolveResult::Unbound) && m.n >= 2, "default removed");
    core::mem::forget(got);
    core::mem::forget(res);
    Outcome::Pass
}

/// K: `pop` removes exactly the bindings of the scope that ends; `prefixes()` lists what is in scope.
pub fn check_ns_pop_iter(raw: &[u8], shape: usize, do_iter: bool, do_pop: bool) -> Outcome {
    let mut r = Raw::new(raw);
    let (m, nesting) = build(&mut r, shape);
    require!(valid(&m, nesting) && nesting >= 1);
    // the listing is decided for exactly 2 user bindings of the shape (symbolic count or 3 bindings did
    // not finish in 15 min)
    let mut m = m;
    if do_iter {
        m.n = 2;
        require!(valid(&m, nesting));
    }
    let mut res = real(&m, nesting);
    if do_iter {

    // in-scope listing before the pop
    let mut listed = 0usize;
    for (decl, Namespace(ns)) in res.iter() {
        // every listed pair is the nearest binding of its prefix and is bound
        let pfx = match decl {
            PrefixDeclaration::Default => None,
            PrefixDeclaration::Named(p) => {
                ensure!(p.len() == 1, "C05: prefix listing names declared prefixes");
                Some(p[0])
            }
        };
        match m.lookup(pfx) {
            Some(i) => {
                ensure!(m.ul[i] == 1 && ns.len() == 1 && ns[0] == m.u[i][0], "C05: prefix listing shows the binding in scope");
            }
            None => {
                ensure!(false, "C05: prefix listing shows only declared prefixes");
            }
        }
        listed += 1;
    }
    // ... and nothing in scope is missing: count the distinct prefixes whose nearest binding is bound
    let mut expect = 0usize;
    let mut i = 0;
    while i < 3 {
        if i < m.n {
            let pfx = if m.pl[i] == 0 { None } else { Some(m.p[i][0]) };
            if m.lookup(pfx) == Some(i) && m.ul[i] == 1 {
                expect += 1;
            }
        }
        i += 1;
    }
    ensure!(listed == expect, "C05: prefix listing shows every binding in scope exactly once");
    witness!(listed == 2, "two prefixes listed");
    }
    if !do_pop {
        core::mem::forget(res);
        return Outcome::Pass;
    }

    res.pop();
    let (lvl, nb, blen) = res.parts();
    ensure!(lvl == nesting - 1, "C05: ending an element leaves its scope");
    let mut keep = 0usize;
    let mut bytes = 0usize;
    let mut i = 0;
    while i < 3 {
        if i < m.n && m.level[i] <= nesting - 1 {
            keep += 1;
            bytes += m.pl[i] + m.ul[i];
        }
        i += 1;
    }
    ensure!(nb == 2 + keep, "C05: declarations stop applying once their element has ended");
    ensure!(blen == 3 + 36 + 5 + 29 + bytes, "C05: ending an element drops exactly its declarations");
    witness!(keep < m.n && keep > 0, "pop drops some and keeps some");
    core::mem::forget(res);
    Outcome::Pass
}

/// K: `push` of a start tag with a declaration (concrete shape, symbolic prefix / namespace bytes).
/// `tpl`: 0 `e xmlns:P="U"`  1 `e xmlns="U"`  2 `e xmlns:P=""`  3 `e a="U"`
pub fn check_ns_push(raw: &[u8], tpl: u8) -> Outcome {
    let mut r = Raw::new(raw);
    let p = r.u8();
    let u = r.u8();
    require!(p < 0x80 && u < 0x80);
    require!(p != b':' && !is_ws(p) && p != b'=' && p != b'"' && u != b'"');
    let t0 = [b'e', b' ', b'x', b'm', b'l', b'n', b's', b':', p, b'=', b'"', u, b'"'];
    let t1 = [b'e', b' ', b'x', b'm', b'l', b'n', b's', b'=', b'"', u, b'"'];
    let t2 = [b'e', b' ', b'x', b'm', b'l', b'n', b's', b':', p, b'=', b'"', b'"'];
    let t3 = [b'e', b' ', p, b'=', b'"', u, b'"'];
    let content: &[u8] = match tpl {
        0 => &t0,
        1 => &t1,
        2 => &t2,
        _ => &t3,
    };
    let s = unsafe { core::str::from_utf8_unchecked(content) };
    let start = BytesStart::from_content(s, 1);
    let mut res = VerifResolver::from_parts(&[], 0);
    let ok = res.push(&start);
    ensure!(ok.is_ok(), "C05: an ordinary declaration is accepted");
    let (lvl, nb, _) = res.parts();
    ensure!(lvl == 1, "C05: a start tag opens a scope");
    match tpl {
        0 | 2 => {
            ensure!(nb == 3, "C05: a prefix declaration is recorded");
            let (pp, uu, l) = res.entry(2);
            ensure!(pp.len() == 1 && pp[0] == p && l == 1, "C05: the declared prefix is recorded in the element's scope");
            if tpl == 0 {
                ensure!(uu.len() == 1 && uu[0] == u, "C05: the declared namespace is recorded");
            } else {
                ensure!(uu.len() == 0, "C05: xmlns:p=\"\" is recorded as unbinding");
            }
        }
        1 => {
            ensure!(nb == 3, "C05: a default declaration is recorded");
            let (pp, uu, l) = res.entry(2);
            ensure!(pp.len() == 0 && uu.len() == 1 && uu[0] == u && l == 1, "C05: the default namespace is recorded in the element's scope");
        }
        _ => {
            ensure!(nb == 2 || (p == b'x' && false), "C05: ordinary attributes declare nothing");
        }
    }
    core::mem::forget(ok);
    core::mem::forget(res);
    core::mem::forget(start);
    Outcome::Pass
}

/// S: the scope depth follows the element depth through every consumer call.
/// Invariant: `nesting_level - pending_pop == number of open elements of the underlying reader`.
/// `call`: 0 read_event  1 read_resolved_event  2 read_to_end(a)  3 read_text(a)
/// raw: [len, state(markup/text), pending, bytes[N]]
pub fn check_ns_depth<const N: usize>(raw: &[u8], call: u8) -> Outcome {
    let mut r = Raw::new(raw);
    let len = r.u8() as usize;
    let in_markup = r.bool();
    let pending = r.bool();
    let bytes: [u8; N] = r.arr();
    require!(len <= N);
    let rest = &bytes[..len];
    // one element `a` is open (a Start event was just returned, or some later point inside it);
    // a pending pop means the last event was an End/Empty whose scope is still there
    let depth = 1usize;
    let nesting: i32 = 1 + if pending { 1 } else { 0 };
    require!(call < 2 || !pending); // skipping is called right after a Start event
    let state = if in_markup { ST_MARKUP } else { ST_TEXT };
    let mut ob: Vec<u8> = Vec::with_capacity(N + 2);
    let mut os: Vec<usize> = Vec::with_capacity(3);
    os.push(0);
    ob.push(b'a');
    let cfg = Cfg::from_bits(0x14); // defaults: check_end_names, trim_markup_names
    let inner = Reader::verif_from_state(rest, state, 5, 0, cfg.to_real(), ob, os);
    let mut ns = NsReader::verif_from_parts(inner, VerifResolver::from_parts(&[], nesting), pending);

    let mut ok = true;
    let mut pushed: i64 = 0;
    match call {
        0 => {
            let e = ns.read_event();
            ok = e.is_ok();
            core::mem::forget(e);
        }
        1 => {
            let e = ns.read_resolved_event();
            ok = e.is_ok();
            core::mem::forget(e);
        }
        2 => {
            let e = ns.read_to_end(QName(b"a"));
            ok = e.is_ok();
            core::mem::forget(e);
        }
        _ => {
            let e = ns.read_text(QName(b"a"));
            ok = e.is_ok();
            core::mem::forget(e);
        }
    }
    let (lvl, pend, _) = ns.verif_ns_state();
    let (_, _, _, _, starts) = ns.verif_state();
    if ok {
        ensure!(
            lvl as i64 - (if pend { 1 } else { 0 }) == starts.len() as i64,
            "C05: declarations stop applying once their element has ended, however its content was read"
        );
    }
    witness!(ok && starts.len() == 0, "element closed");
    witness!(ok && starts.len() == 2, "child opened");
    core::mem::forget(ns);
    Outcome::Pass
}

/// S (concrete shape): the same link for the skipping calls on the shortest documents that can be
/// skipped: `rest` = `x</a>` / `</a>` with one symbolic text byte. The skipping calls loop over whole
/// events, which CBMC cannot unroll for symbolic markup (DESIGN.md section 2); the shape is concrete here.
/// raw: [x]
pub fn check_ns_skip_shape(raw: &[u8], call: u8, with_text: bool) -> Outcome {
    let x = raw[0];
    require!(x != b'<');
    let d1 = [x, b'<', b'/', b'a', b'>'];
    let d0 = [b'<', b'/', b'a', b'>'];
    let rest: &[u8] = if with_text { &d1 } else { &d0 };
    let mut ob: Vec<u8> = Vec::with_capacity(4);
    let mut os: Vec<usize> = Vec::with_capacity(3);
    os.push(0);
    ob.push(b'a');
    let cfg = Cfg::from_bits(0x14);
    let inner = Reader::verif_from_state(rest, ST_TEXT, 3, 0, cfg.to_real(), ob, os);
    let mut ns = NsReader::verif_from_parts(inner, VerifResolver::from_parts(&[(&b"p"[..], &b"u"[..], 1)], 1), false);
    let ok;
    if call == 2 {
        let e = ns.read_to_end(QName(b"a"));
        ok = e.is_ok();
        core::mem::forget(e);
    } else {
        let e = ns.read_text(QName(b"a"));
        ok = e.is_ok();
        core::mem::forget(e);
    }
    ensure!(ok, "C05: skipping a closed element succeeds");
    let (lvl, pend, nb) = ns.verif_ns_state();
    let (_, _, _, _, starts) = ns.verif_state();
    ensure!(starts.len() == 0, "C12: skipping consumes the end tag");
    ensure!(
        lvl as i64 - (if pend { 1 } else { 0 }) == 0,
        "C05: declarations stop applying once their element has ended, however its content was read"
    );
    // the prefix declared on the skipped element is unknown afterwards (or will be dropped before the next event)
    if !pend {
        ensure!(nb == 2, "C05: declarations of a skipped element are dropped");
        let (r, _) = ns.resolve_element(QName(b"p:l"));
        ensure!(matches!(r, ResolveResult::Unknown(_)), "C05: a prefix declared on a skipped element is unknown after it");
        core::mem::forget(r);
    }
    core::mem::forget(ns);
    Outcome::Pass
}

/// K: the first `k` items of `prefixes()` over 2 user bindings of the shape, one `next()` at a time
/// (iterating the listing to its end inside one query exhausts memory).
pub fn check_ns_iter_k(raw: &[u8], shape: usize, k: usize) -> Outcome {
    let mut r = Raw::new(raw);
    let (m0, nesting) = build(&mut r, shape);
    let mut m = m0;
    m.n = 2;
    require!(valid(&m, nesting) && nesting >= 1);
    let res = real(&m, nesting);
    // reference listing: bindings in declaration order, skipping overridden and unbound ones
    let mut want = [(0usize, false); 2];
    let mut nw = 0usize;
    let mut i = 0;
    while i < 2 {
        let pfx = if m.pl[i] == 0 { None } else { Some(m.p[i][0]) };
        if m.lookup(pfx) == Some(i) && m.ul[i] == 1 {
            want[nw] = (i, true);
            nw += 1;
        }
        i += 1;
    }
    let mut it = res.iter();
    let mut j = 0;
    while j < k {
        let got = it.next();
        if j < nw {
            let e = want[j].0;
            match got {
                Some((decl, Namespace(ns))) => {
                    let ok_p = match decl {
                        PrefixDeclaration::Default => m.pl[e] == 0,
                        PrefixDeclaration::Named(p) => m.pl[e] == 1 && p.len() == 1 && p[0] == m.p[e][0],
                    };
                    ensure!(ok_p && ns.len() == 1 && ns[0] == m.u[e][0], "C05: prefix listing shows the binding in scope");
                }
                None => {
                    ensure!(false, "C05: prefix listing shows every binding in scope exactly once");
                }
            }
        } else {
            ensure!(got.is_none(), "C05: prefix listing shows only bindings that are in scope");
        }
        j += 1;
    }
    witness!(nw == 1 && want[0].0 == 1, "first binding skipped, second listed");
    core::mem::forget(res);
    Outcome::Pass
}
