//! C11: one `Attributes::next()` from an arbitrary iterator state against the reference scanner.

use crate::common::*;
use crate::refmodel::attr::*;
use crate::{ensure, forall_idx, require, witness};
use quick_xml::events::attributes::{AttrError, Attributes};

pub const K: usize = 2;

/// Native only: is the pre-state reachable through the public API (`Attributes::new/html` +
/// `with_checks` + `next()`)? Used to reject counterexamples from unreachable pre-states.
#[cfg(not(kani))]
fn reachable(bytes: &[u8], code: u8, off: usize, html: bool, check: bool, keys: &[(usize, usize)]) -> bool {
    let Ok(s) = std::str::from_utf8(bytes) else { return false };
    for p0 in 0..=bytes.len() {
        let mut it = if html { Attributes::html(s, p0) } else { Attributes::new(s, p0) };
        it.with_checks(check);
        for _ in 0..=bytes.len() + 1 {
            let (c, o, ks) = it.verif_state();
            let same_keys = ks.len() == keys.len() && ks.iter().zip(keys).all(|(r, k)| r.start == k.0 && r.end == k.1);
            if c == code && (c == 0 || o == off) && same_keys {
                return true;
            }
            if it.next().is_none() {
                break;
            }
        }
    }
    false
}

/// raw: [len, code, off, flags(html, check), nkeys, keys[K] as (start, end), bytes[N]]
pub fn check_attr_step<const N: usize>(raw: &[u8], fixed_code: u8) -> Outcome {
    let mut r = Raw::new(raw);
    let len = r.u8() as usize;
    let mut code = r.u8();
    let off = r.u8() as usize;
    let flags = r.u8();
    let nkeys = r.u8() as usize;
    let mut keys = [(0usize, 0usize); K];
    let mut i = 0;
    while i < K {
        keys[i] = (r.u8() as usize, r.u8() as usize);
        i += 1;
    }
    let bytes: [u8; N] = r.arr();
    let html = flags & 1 != 0;
    let check = flags & 2 != 0;
    let mut html = html;
    let mut check = check;
    let mut nkeys = nkeys;
    require!(len <= N);
    if fixed_code == 4 {
        // canonical family of SkipEqValue states, reachable by construction through the public API:
        // `Attributes::html("K K =...", 0)` yields Empty(K), then Duplicated for the second K and stops at its `=`
        code = 3;
        html = true;
        check = true;
        nkeys = 1;
        let kl = keys[0].1;
        require!(kl >= 1 && kl <= 2 && 2 * kl + 2 <= len);
        keys[0] = (0, kl);
        require!(is_ws(bytes[kl]));
        let mut j = 0;
        while j < 2 {
            if j < kl {
                require!(bytes[kl + 1 + j] == bytes[j] && !is_ws(bytes[j]) && bytes[j] != b'=');
            }
            j += 1;
        }
        // optional whitespace, then the `=`
        require!(off >= 2 * kl + 1 && off < len && bytes[off] == b'=');
        j = 0;
        while j < N {
            if j >= 2 * kl + 1 && j < off {
                require!(is_ws(bytes[j]));
            }
            j += 1;
        }
    } else if fixed_code == 5 {
        // canonical family of SkipValue states, reachable by construction: `Attributes::new("k = v...", 0)` in
        // XML mode reports UnquotedValue at the first byte of v and stops there
        code = 2;
        html = false;
        nkeys = if check { 1 } else { 0 };
        keys[0] = (0, 1);
        require!(len >= 3 && !is_ws(bytes[0]) && bytes[0] != b'=');
        require!(off >= 2 && off < len);
        // bytes[1..off] = ws* '=' ws*
        let mut eq_seen = 0usize;
        let mut j = 0;
        while j < N {
            if j >= 1 && j < off {
                if bytes[j] == b'=' {
                    eq_seen += 1;
                } else {
                    require!(is_ws(bytes[j]));
                }
            }
            j += 1;
        }
        require!(eq_seen == 1);
    } else if fixed_code != 255 {
        code = fixed_code;
    }
    require!(len <= N && code <= 3 && nkeys <= K);
    // `Attributes::new` takes a `&str`: tag content is text (7-bit here)
    i = 0;
    while i < N {
        require!(bytes[i] < 0x80);
        i += 1;
    }
    let b = &bytes[..len];

    // ---- representation invariant -------------------------------------------------------------
    require!(check || nkeys == 0);
    i = 0;
    let mut prev_end = 0;
    while i < K {
        if i < nkeys {
            let (s, e) = keys[i];
            // recorded keys: non-empty, in order, inside the part already scanned, no whitespace inside
            require!(s < e && e <= len && s >= prev_end);
            require!(code == 0 || e <= off);
            let mut j = 0;
            while j < N {
                if j >= s && j < e {
                    require!(!is_ws(b[j]) && (j == s || b[j] != b'='));
                }
                j += 1;
            }
            prev_end = e;
        }
        i += 1;
    }
    // recorded keys are pairwise different (a repeated key is reported, not recorded)
    if nkeys == 2 {
        let (s0, e0) = keys[0];
        let (s1, e1) = keys[1];
        let mut eq = e0 - s0 == e1 - s1;
        let mut j = 0;
        while j < N {
            if eq && j < e0 - s0 && b[s0 + j] != b[s1 + j] {
                eq = false;
            }
            j += 1;
        }
        require!(!eq);
    }
    match code {
        0 => {}
        1 => require!(off <= len),
        2 => {
            // start of an unquoted value: directly after `=` and optional whitespace
            require!(off < len && !is_ws(b[off]) && b[off] != b'"' && b[off] != b'\'' && off >= 1);
            let mut p = off - 1;
            let mut j = 0;
            while j < N {
                if p > 0 && is_ws(b[p]) {
                    p -= 1;
                }
                j += 1;
            }
            require!(b[p] == b'=');
        }
        _ => {
            // the `=` after a key that repeats a recorded key
            require!(off < len && b[off] == b'=' && check && nkeys >= 1 && off >= 1);
            let mut e = off;
            let mut j = 0;
            while j < N {
                if e > 0 && is_ws(b[e - 1]) {
                    e -= 1;
                }
                j += 1;
            }
            let mut s = e;
            j = 0;
            while j < N {
                if s > 0 && !is_ws(b[s - 1]) && (b[s - 1] != b'=' || s - 1 == 0 || is_ws(b[s - 2])) && s > prev_end {
                    s -= 1;
                }
                j += 1;
            }
            require!(s < e && s >= prev_end);
            // equals one of the recorded keys
            let mut any = false;
            let mut k = 0;
            while k < K {
                if k < nkeys {
                    let (s0, e0) = keys[k];
                    let mut eq = e0 - s0 == e - s;
                    let mut j = 0;
                    while j < N {
                        if eq && j < e - s && b[s0 + j] != b[s + j] {
                            eq = false;
                        }
                        j += 1;
                    }
                    if eq {
                        any = true;
                    }
                }
                k += 1;
            }
            require!(any);
        }
    }

    // ---- reference ---------------------------------------------------------------------------
    let pos = normal_form(b, code, off);
    let (want, want_next, recorded) = ref_attr_next::<K>(b, pos, html, check, &keys, nkeys);
    // room to record one more key
    require!(!recorded || nkeys < K);

    // ---- real --------------------------------------------------------------------------------
    let mut kv: Vec<core::ops::Range<usize>> = Vec::with_capacity(K + 1);
    i = 0;
    while i < K {
        if i < nkeys {
            kv.push(keys[i].0..keys[i].1);
        }
        i += 1;
    }
    let mut it = Attributes::verif_with_state(b, code, off, html, check, kv);
    let got = it.next();
    let (code2, off2, keys2) = it.verif_state();

    #[cfg(not(kani))]
    macro_rules! fail_if_reachable {
        () => {
            if !reachable(b, code, off, html, check, &keys[..nkeys]) {
                return Outcome::Skip;
            }
        };
    }
    #[cfg(kani)]
    macro_rules! fail_if_reachable {
        () => {};
    }
    // natively a failure only counts when the pre-state is reachable through the public API
    #[cfg(not(kani))]
    {
        let ok = (|| -> Outcome {
            compare(b, &got, &want, code2, off2, keys2, want_next, recorded, nkeys)
        })();
        if let Outcome::Fail(_) = ok {
            fail_if_reachable!();
        }
        return ok;
    }
    #[cfg(kani)]
    {
        fail_if_reachable!();
        let o = compare(b, &got, &want, code2, off2, keys2, want_next, recorded, nkeys);
        witness!(matches!(want, Item::Duplicated(_, _)), "duplicate reported");
        witness!(code == 3 && matches!(want, Item::Attr { .. }), "attribute after a skipped duplicate");
        witness!(code == 2 && matches!(want, Item::Attr { .. }), "attribute after a skipped unquoted value");
        witness!(code == 2 && !matches!(want, Item::None), "another item after a skipped unquoted value");
        witness!(matches!(want, Item::Attr { has_value: true, .. }), "attribute with value");
        core::mem::forget(got);
        core::mem::forget(it);
        o
    }
}

fn compare(
    b: &[u8],
    got: &Option<Result<quick_xml::events::attributes::Attribute, AttrError>>,
    want: &Item,
    code2: u8,
    off2: usize,
    keys2: &[core::ops::Range<usize>],
    want_next: usize,
    recorded: bool,
    nkeys: usize,
) -> Outcome {
    match (got, want) {
        (None, Item::None) => {}
        (Some(Ok(a)), Item::Attr { ks, ke, vs, ve, has_value }) => {
            let k = a.key.as_ref();
            ensure!(k.len() == ke - ks, "C11: attribute key has exactly the key's length");
            forall_idx!(j < ke - ks => {
                ensure!(k[j] == b[*ks + j], "C11: attribute key is exactly the key bytes");
            });
            let v: &[u8] = &a.value;
            if *has_value {
                ensure!(v.len() == ve - vs, "C11: attribute value has exactly the length between the quotes");
                forall_idx!(j < ve - vs => {
                    ensure!(v[j] == b[*vs + j], "C11: attribute value is exactly the bytes between the quotes");
                });
            } else {
                ensure!(v.len() == 0, "C11: key-only attribute has no value");
            }
        }
        (Some(Err(AttrError::ExpectedEq(p))), Item::ExpectedEq(w)) => {
            ensure!(p == w, "C11: ExpectedEq at the documented position");
        }
        (Some(Err(AttrError::ExpectedValue(p))), Item::ExpectedValue(w)) => {
            ensure!(p == w, "C11: ExpectedValue at the documented position");
        }
        (Some(Err(AttrError::UnquotedValue(p))), Item::UnquotedValue(w)) => {
            ensure!(p == w, "C11: UnquotedValue at the documented position");
        }
        (Some(Err(AttrError::ExpectedQuote(p, q))), Item::ExpectedQuote(w, wq)) => {
            ensure!(p == w && q == wq, "C11: ExpectedQuote at the documented position");
        }
        (Some(Err(AttrError::Duplicated(p, q))), Item::Duplicated(w, wq)) => {
            ensure!(p == w && q == wq, "C11: Duplicated reports the repeated and the earlier key position");
        }
        _ => {
            ensure!(false, "C11: item is the attribute or the documented error for this tag content");
        }
    }
    // the iterator resumes at the documented recovery point (compared in normal form: the first byte of
    // the next key), and stays ended once ended
    let got_next = normal_form(b, code2, off2);
    ensure!(got_next == want_next, "C11: iteration continues at the documented recovery point");
    if let Item::None = want {
        ensure!(code2 == 0 || got_next == END, "C11: iteration stays ended");
    }
    ensure!(keys2.len() == nkeys + if recorded { 1 } else { 0 }, "C11: a key is remembered once it has been seen");
    Outcome::Pass
}
