//! C02 / C18: one `Reader<R: BufRead>::read_event_into()` over a source that hands out the remaining
//! input in solver-chosen pieces (and, for C18, fails at solver-chosen refill calls), compared with
//! the slice reader's step on the same bytes from the same reader state. Both sides are real code;
//! no reference model is involved.

use crate::common::*;
use crate::refmodel::tok::*;
use crate::{ensure, forall_idx, require, witness};
use quick_xml::errors::Error;
#[allow(unused_imports)]
use crate::refmodel::tok::{Out, StackOp};
use quick_xml::events::Event;
use quick_xml::reader::Reader;
use std::io;

pub const C02: u32 = 1 << 2;
pub const C18: u32 = 1 << 18;

/// The I/O environment: a `BufRead` over `data` that returns, at each `fill_buf`, the bytes from the
/// current position up to the next cut (a non-empty prefix of what remains, as the `BufRead`
/// contract says), or the scheduled fault for that call.
pub struct Pieces<'a, const K: usize, const F: usize> {
    pub data: &'a [u8],
    pub pos: usize,
    /// ascending absolute cut positions (values >= len mean "no cut")
    pub cuts: [usize; K],
    /// fault schedule for the first F `fill_buf` calls: 0 = ok, 1 = Interrupted, 2..7 = another error kind
    /// (BrokenPipe, UnexpectedEof, WouldBlock, TimedOut, InvalidData, Other)
    pub sched: [u8; F],
    pub calls: usize,
    pub failed: bool,
}

impl<'a, const K: usize, const F: usize> io::Read for Pieces<'a, K, F> {
    fn read(&mut self, _buf: &mut [u8]) -> io::Result<usize> {
        Ok(0)
    }
}

impl<'a, const K: usize, const F: usize> io::BufRead for Pieces<'a, K, F> {
    fn fill_buf(&mut self) -> io::Result<&[u8]> {
        let c = self.calls;
        self.calls += 1;
        if c < F {
            if self.sched[c] == 1 {
                return Err(io::Error::from(io::ErrorKind::Interrupted));
            }
            if self.sched[c] >= 2 {
                self.failed = true;
                let kind = match self.sched[c] {
                    2 => io::ErrorKind::BrokenPipe,
                    3 => io::ErrorKind::UnexpectedEof,
                    4 => io::ErrorKind::WouldBlock,
                    5 => io::ErrorKind::TimedOut,
                    6 => io::ErrorKind::InvalidData,
                    _ => io::ErrorKind::Other,
                };
                return Err(io::Error::from(kind));
            }
        }
        let mut end = self.data.len();
        let mut k = K;
        while k > 0 {
            k -= 1;
            if self.cuts[k] > self.pos && self.cuts[k] < end {
                end = self.cuts[k];
            }
        }
        Ok(&self.data[self.pos..end])
    }
    fn consume(&mut self, amt: usize) {
        self.pos += amt;
    }
}

fn kind_code(e: &Event) -> u8 {
    match e {
        Event::Start(_) => 0,
        Event::End(_) => 1,
        Event::Empty(_) => 2,
        Event::Text(_) => 3,
        Event::CData(_) => 4,
        Event::Comment(_) => 5,
        Event::PI(_) => 6,
        Event::Decl(_) => 7,
        Event::DocType(_) => 8,
        Event::Eof => 9,
    }
}

/// raw: [len, state, cfg, offset(2), depth(0/1), name0, cuts[K], sched[F], bytes[N]]
pub fn check_bufstep<const N: usize, const P: usize, const K: usize, const F: usize>(
    raw: &[u8],
    region: &crate::props::step::Region,
    mask: u32,
) -> Outcome {
    let mut r = Raw::new(raw);
    let len_sym = r.u8() as usize;
    let len = if region.fixed_len == 255 { len_sym } else { region.fixed_len as usize };
    let mut state = r.u8();
    let cfg_bits = (r.u8() & region.cfg_and & 0x7f) | region.cfg_or;
    let offset = r.u16() as u64;
    let depth = r.u8() as usize;
    let name0 = r.u8();
    let cuts_raw: [u8; K] = r.arr();
    let sched: [u8; F] = r.arr();
    let sym: [u8; N] = r.arr();

    require!(len <= N);
    if region.state != 255 {
        state = region.state;
    }
    require!(state <= ST_DONE);
    require!(depth <= 1);
    require!(!is_ws(name0) && name0 != b'/' && name0 != b'!' && name0 != b'?' && name0 != b'>' && name0 != b'"' && name0 != b'\'');
    let plen = region.prefix.len();
    if plen == 0 && N > 0 {
        match region.first {
            0 => {}
            1 => require!(len >= 1 && sym[0] != b'!' && sym[0] != b'/' && sym[0] != b'?'),
            _ => require!(len >= 1),
        }
    }
    // an exact first byte is written, not assumed: the dispatch on it is then decided during
    // symbolic execution
    let mut sym = sym;
    if plen == 0 && N > 0 && region.first > 1 {
        sym[0] = region.first;
    }
    require!(state != ST_MARKUP || offset >= 1);
    require!(state != ST_INIT || (offset == 0 && depth == 0));
    require!(state != ST_EMPTY || depth >= 1);

    let mut input = [0u8; P];
    let mut i = 0;
    while i < plen {
        input[i] = region.prefix[i];
        i += 1;
    }
    i = 0;
    while i < N {
        if plen + i < P {
            input[plen + i] = sym[i];
        }
        i += 1;
    }
    let total = plen + len;
    let rest: &[u8] = &input[..total];

    // cuts: ascending, inside the input; in the initial state the first piece has >= 4 bytes (the
    // documented exception: the BOM / encoding sniff looks at the first piece only)
    let mut cuts = [usize::MAX; K];
    i = 0;
    let mut prev = 0usize;
    while i < K {
        let c = cuts_raw[i] as usize;
        require!(c >= prev);
        if state == ST_INIT && i == 0 {
            require!(c >= 4 || c >= total);
        }
        cuts[i] = c;
        prev = c;
        i += 1;
    }
    let mut n_int = 0;
    let mut n_err = 0;
    i = 0;
    while i < F {
        require!(sched[i] <= 7);
        if mask & C18 == 0 {
            require!(sched[i] == 0);
        }
        if sched[i] == 1 {
            n_int += 1;
        }
        if sched[i] >= 2 {
            n_err += 1;
        }
        i += 1;
    }
    require!(n_err <= 1);

    let cfg = Cfg::from_bits(cfg_bits);
    let pos_before = if state == ST_MARKUP { offset - 1 } else { offset };

    // ---- what the slice reader does on these bytes: the reference step (slice reader == reference is
    // decided by the C01 step obligations on the same regions)
    let top = Top { name: if depth == 1 { Some(core::slice::from_ref(&name0)) } else { None } };
    let want = ref_step(state, &cfg, rest, top);
    require!(!want.empty_text_case);
    let mut ob_b: Vec<u8> = Vec::with_capacity(N + 2);
    let mut os_b: Vec<usize> = Vec::with_capacity(3);
    if depth == 1 {
        os_b.push(0);
        ob_b.push(name0);
    }

    // ---- the buffered reader over the chunked / faulty source ----------------------------------
    let src: Pieces<K, F> = Pieces { data: rest, pos: 0, cuts, sched, calls: 0, failed: false };
    let mut rb = Reader::verif_from_state(src, state, offset, pos_before, cfg.to_real(), ob_b, os_b);
    let mut ubuf: Vec<u8> = Vec::with_capacity(P + 2);
    let res_b = rb.read_event_into(&mut ubuf);
    let (st_b, off_b, err_b, buf_b, starts_b) = rb.verif_state();
    let pos_b = rb.buffer_position();
    let failed = rb.get_ref().failed;

    if !failed {
        // no I/O error was delivered (interrupts may have been): everything is as for the slice
        match crate::props::step::compare_outcome(&res_b, &want, rest, top, crate::props::step::C01, false) {
            Outcome::Pass => {}
            o => return o,
        }
        match want.out {
            Out::Syntax(_) => {
                ensure!(st_b == ST_DONE, "C02: same reader state after a syntax error");
            }
            _ => {
                ensure!(st_b == want.next_state, "C02: same reader state after the event as for the slice source");
                ensure!(off_b - offset == want.consumed as u64, "C02: same position after the event as for the slice source");
                let d_after = starts_b.len();
                let want_depth = match want.stack {
                    StackOp::None => depth,
                    StackOp::Pop => depth - 1,
                    StackOp::Push { .. } => depth + 1,
                };
                ensure!(d_after == want_depth, "C02: same open-element stack as for the slice source");
            }
        }
    } else {
        // an I/O error was delivered at some refill
        ensure!(matches!(res_b, Err(Error::Io(_))), "C18: an I/O error of the source is reported as an I/O error");
        ensure!(st_b == ST_DONE, "C18: after an I/O error the reader is finished");
        let mut ubuf2: Vec<u8> = Vec::new();
        let again = rb.read_event_into(&mut ubuf2);
        ensure!(matches!(again, Ok(Event::Eof)), "C18: after an I/O error every further call returns Eof");
        core::mem::forget(again);
        core::mem::forget(ubuf2);
    }

    witness!(!failed && n_int > 0 && matches!(res_b, Ok(Event::Eof)) == false, "interrupted and completed");
    witness!(failed, "io error delivered");
    witness!(!failed && rb.get_ref().calls >= 3 && res_b.is_ok(), "event assembled from two pieces");

    core::mem::forget(res_b);
    core::mem::forget(rb);
    core::mem::forget(ubuf);
    Outcome::Pass
}

// ---------------------------------------------------------------------------------------------------
// Helper level: the full buffered reader step exhausts memory (15-40 GB for 2-3 symbolic bytes:
// every helper with its refill loop is unrolled in every arm of the dispatch), so the buffered source is
// decided helper by helper: each of the seven `XmlSource` helpers over a chunked / faulty `BufRead`
// against the SAME helper of the slice source on the same bytes (both real, through the `verif_source`
// hooks). The dispatch that calls them is the same macro text for both sources (decided under C01).

use quick_xml::reader::verif_source::{self, Res};

/// raw: [len, cuts[K], sched[F], bytes[N]]; `op`: see `verif_source::buffered`
pub fn check_helper<const N: usize, const K: usize, const F: usize>(raw: &[u8], op: u8, mask: u32, first: u8) -> Outcome {
    let mut r = Raw::new(raw);
    let len = r.u8() as usize;
    let cuts_raw: [u8; K] = r.arr();
    let sched: [u8; F] = r.arr();
    let mut bytes: [u8; N] = r.arr();
    require!(len <= N);
    if first == 0xFE {
        // read_bang_element on a comment: `!-` concrete (only the Comment scanner is explored)
        require!(len >= 2);
        bytes[0] = b'!';
        bytes[1] = b'-';
    } else if first == 0xFD {
        require!(len >= 2);
        bytes[0] = b'!';
        bytes[1] = b'[';
    } else if first != 0 {
        // read_bang_element is only called when the next byte is `!`
        require!(len >= 1);
        bytes[0] = first;
    }
    let data = &bytes[..len];
    let mut cuts = [usize::MAX; K];
    let mut i = 0;
    let mut prev = 0usize;
    while i < K {
        let c = cuts_raw[i] as usize;
        require!(c >= prev);
        // the byte order mark sniff looks at the first piece only (documented exception)
        if op == 6 && i == 0 {
            require!(c >= 3 || c >= len);
        }
        cuts[i] = c;
        prev = c;
        i += 1;
    }
    let mut n_int = 0;
    let mut n_err = 0;
    i = 0;
    while i < F {
        require!(sched[i] <= 7);
        if mask & C18 == 0 {
            require!(sched[i] == 0);
        }
        if sched[i] == 1 {
            n_int += 1;
        }
        if sched[i] >= 2 {
            n_err += 1;
        }
        i += 1;
    }
    require!(n_err <= 1);

    // slice source
    let mut s: &[u8] = data;
    let mut pos_s: u64 = 7;
    let (res_s, payload_s) = verif_source::slice(op, &mut s, &mut pos_s);

    // buffered source
    let mut src: Pieces<K, F> = Pieces { data, pos: 0, cuts, sched, calls: 0, failed: false };
    let mut buf: Vec<u8> = Vec::with_capacity(N + 2);
    let mut pos_b: u64 = 7;
    let res_b = verif_source::buffered(op, &mut src, &mut buf, &mut pos_b);

    if !src.failed {
        ensure!(res_b == res_s, "C02: a buffered source helper returns what the slice helper returns");
        // after a syntax error (unclosed construct) nothing follows; everything else: same position, same rest
        let fatal = matches!(res_s, Res::Syntax(_));
        if !fatal {
            ensure!(pos_b == pos_s, "C02: a buffered source helper advances the position like the slice helper");
            ensure!(src.pos == len - s.len(), "C02: a buffered source helper consumes what the slice helper consumes");
            ensure!(buf.len() == payload_s.len(), "C02: same payload length from buffered and slice source");
            forall_idx!(j < payload_s.len() => {
                ensure!(buf[j] == payload_s[j], "C02: same payload from buffered and slice source");
            });
        }
    } else {
        match res_b {
            Res::Io(k) => {
                ensure!(k != std::io::ErrorKind::Interrupted, "C18: the reported I/O error is the one the source delivered");
            }
            _ => {
                ensure!(false, "C18: an I/O error of the source is reported as an I/O error");
            }
        }
    }
    witness!(!src.failed && n_int > 0, "interrupted and completed");
    witness!(src.failed, "io error delivered");
    witness!(!src.failed && src.calls >= 3 && buf.len() >= 2, "payload assembled from two pieces");
    core::mem::forget(buf);
    Outcome::Pass
}
