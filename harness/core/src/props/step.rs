//! One `Reader::<&[u8]>::read_event()` from an arbitrary reader state, compared with one step of
//! the reference tokenizer (`refmodel::tok`). Serves C01, C03, C04, C08, C16 through `mask`.

use crate::common::*;
use crate::refmodel::tok::*;
use crate::{ensure, forall_idx, require, witness};
use quick_xml::errors::{Error, IllFormedError, SyntaxError};
use quick_xml::events::Event;
use quick_xml::reader::Reader;

pub const C01: u32 = 1 << 1;
pub const C03: u32 = 1 << 3;
pub const C04: u32 = 1 << 4;
pub const C08: u32 = 1 << 8;
pub const C16: u32 = 1 << 16;
/// the twin harness of the C16 known finding: only inputs in the finding's region
pub const C16_FINDING_ONLY: u32 = 1 << 30;

/// Which part of the input space a harness instance takes (they tile the space, so that each
/// instance stays small for the solver).
#[derive(Clone, Copy)]
pub struct Region {
    /// reader state before the step (`ST_*`), 255 = any
    pub state: u8,
    /// constraint on the first byte of the symbolic part:
    /// 0 any, b'!' / b'/' / b'?' exactly that byte, 1 = none of `!/?` (start or empty tag)
    pub first: u8,
    /// concrete bytes placed before the symbolic bytes
    pub prefix: &'static [u8],
    /// configuration bits forced to 0 / 1 (others symbolic)
    pub cfg_and: u8,
    pub cfg_or: u8,
    /// symbolic bytes restricted to 7-bit
    pub ascii: bool,
    /// which reachability witnesses this instance carries (bit i = `COVER_NAMES[i]`); each
    /// satisfiable witness costs one more SAT call, so an instance names only the ones it is for
    pub covers: u16,
    /// 255: the number of symbolic bytes is chosen by the solver (0..=N); otherwise exactly this
    /// many. A concrete length lets CBMC's symbolic execution decide the dispatch on a concrete
    /// first byte and all loop bounds, which makes an instance 5-20x cheaper; the lengths 0..=N are
    /// then covered by N+1 instances.
    pub fixed_len: u8,
    /// 0xFFFF: depth and name lengths of the open-name stack are chosen by the solver; otherwise
    /// concrete: depth = bits 0-1, length of name i = bits 2+2i..4+2i (contents stay symbolic).
    /// Heap buffers of symbolic length make CBMC's array post-processing explode (24 GB for depth<=2),
    /// with a concrete shape the same step costs seconds.
    pub shape: u16,
}

pub const COVER_NAMES: [&str; 12] = [
    "Start", "End", "Empty", "Text", "Comment", "CData", "PI", "Decl", "DocType", "Eof", "SyntaxError", "IllFormedError",
];
pub const CV_START: u16 = 1 << 0;
pub const CV_END: u16 = 1 << 1;
pub const CV_EMPTY: u16 = 1 << 2;
pub const CV_TEXT: u16 = 1 << 3;
pub const CV_COMMENT: u16 = 1 << 4;
pub const CV_CDATA: u16 = 1 << 5;
pub const CV_PI: u16 = 1 << 6;
pub const CV_DECL: u16 = 1 << 7;
pub const CV_DOCTYPE: u16 = 1 << 8;
pub const CV_EOF: u16 = 1 << 9;
pub const CV_SYNTAX: u16 = 1 << 10;
pub const CV_ILL: u16 = 1 << 11;

impl Region {
    pub const fn any() -> Self {
        Region {
            state: 255,
            first: 0,
            prefix: b"",
            cfg_and: 0x7f,
            cfg_or: 0,
            ascii: false,
            covers: 0,
            fixed_len: 255,
            shape: 0xFFFF,
        }
    }
}

fn kind_of(e: &Event) -> Kind {
    match e {
        Event::Start(_) => Kind::Start,
        Event::End(_) => Kind::End,
        Event::Empty(_) => Kind::Empty,
        Event::Text(_) => Kind::Text,
        Event::CData(_) => Kind::CData,
        Event::Comment(_) => Kind::Comment,
        Event::PI(_) => Kind::PI,
        Event::Decl(_) => Kind::Decl,
        Event::DocType(_) => Kind::DocType,
        Event::Eof => Kind::Eof,
    }
}

/// raw layout: [len, state, cfg, offset(2), errdelta, depth, namelen[D], names[D][L], bytes[N]]
/// `P` = prefix length + N (size of the assembled input array).
pub fn check_step<const N: usize, const P: usize, const D: usize, const L: usize>(
    raw: &[u8],
    region: &Region,
    mask: u32,
) -> Outcome {
    let mut r = Raw::new(raw);
    let len_sym = r.u8() as usize;
    let len = if region.fixed_len == 255 { len_sym } else { region.fixed_len as usize };
    let mut state = r.u8();
    let cfg_bits = (r.u8() & region.cfg_and & 0x7f) | region.cfg_or;
    let offset = r.u16() as u64;
    let errdelta = r.u8() as u64;
    let mut depth = r.u8() as usize;
    let mut name_len = [0usize; D];
    // flat (row stride L): CBMC mis-resolves slices of nested arrays `[[u8; L]; D]` (spurious counterexample seen)
    let mut names = [0u8; 8];
    let mut i = 0;
    while i < D {
        name_len[i] = r.u8() as usize;
        i += 1;
    }
    i = 0;
    while i < D {
        let row: [u8; L] = r.arr();
        let mut k = 0;
        while k < L {
            names[i * L + k] = row[k];
            k += 1;
        }
        i += 1;
    }
    let sym: [u8; N] = r.arr();
    if region.shape != 0xFFFF {
        depth = (region.shape & 3) as usize;
        i = 0;
        while i < D {
            name_len[i] = ((region.shape >> (2 + 2 * i)) & 3) as usize;
            i += 1;
        }
    }

    // ---- input validity and representation invariant ------------------------------------------
    require!(len <= N);
    if region.state != 255 {
        state = region.state;
    }
    require!(state <= ST_DONE);
    require!(depth <= D);
    i = 0;
    while i < D {
        require!(name_len[i] <= L);
        i += 1;
    }
    // names on the stack come from start tags: no whitespace, no unquoted `>`, not starting like other markup
    i = 0;
    while i < D {
        let mut k = 0;
        while k < L {
            if i < depth && k < name_len[i] {
                let c = names[i * L + k];
                require!(!is_ws(c) && c != b'>' && c != b'"' && c != b'\'');
                require!(!region.ascii || c < 0x80);
                require!(k > 0 || (c != b'/' && c != b'!' && c != b'?'));
            }
            k += 1;
        }
        i += 1;
    }
    let plen = region.prefix.len();
    if plen == 0 && N > 0 {
        match region.first {
            0 => {}
            1 => require!(len >= 1 && sym[0] != b'!' && sym[0] != b'/' && sym[0] != b'?'),
            _ => require!(len >= 1),
        }
    }
    // an exact first byte is written, not assumed: the dispatch on it is then decided during
    // symbolic execution
    let mut sym = sym;
    if plen == 0 && N > 0 && region.first > 1 {
        sym[0] = region.first;
    }
    if region.ascii {
        i = 0;
        while i < N {
            require!(sym[i] < 0x80);
            i += 1;
        }
    }
    // the `<` was consumed when inside markup; a BOM can only be followed from offset 0
    require!(state != ST_MARKUP || offset >= 1);
    require!(state != ST_INIT || (offset == 0 && depth == 0));
    // an expanded empty element has pushed its name
    require!(state != ST_EMPTY || depth >= 1);
    // the last reported error is not after the current position
    let pos_before = if state == ST_MARKUP { offset - 1 } else { offset };
    require!(errdelta <= pos_before);
    let last_err = pos_before - errdelta;

    // assemble the remaining input: prefix ++ sym[..len]
    let mut input = [0u8; P];
    i = 0;
    while i < plen {
        input[i] = region.prefix[i];
        i += 1;
    }
    i = 0;
    while i < N {
        if plen + i < P {
            input[plen + i] = sym[i];
        }
        i += 1;
    }
    let total = plen + len;
    let rest: &[u8] = &input[..total];

    let cfg = Cfg::from_bits(cfg_bits);

    // the open-name stack as the reader keeps it: concatenated names + start offsets
    let mut opened_buffer: Vec<u8> = Vec::with_capacity(D * L + N + 4);
    let mut opened_starts: Vec<usize> = Vec::with_capacity(D + 2);
    i = 0;
    while i < D {
        if i < depth {
            opened_starts.push(opened_buffer.len());
            let mut k = 0;
            while k < L {
                if k < name_len[i] {
                    opened_buffer.push(names[i * L + k]);
                }
                k += 1;
            }
        }
        i += 1;
    }
    let stack_bytes_before = opened_buffer.len();

    // ---- reference ---------------------------------------------------------------------------
    let top = Top {
        name: if depth > 0 { Some(&names[(depth - 1) * L..(depth - 1) * L + name_len[depth - 1]]) } else { None },
    };
    let want = ref_step(state, &cfg, rest, top);

    if mask & C16_FINDING_ONLY != 0 {
        require!(want.empty_text_case);
    } else {
        // documented as "not pushed" but emitted empty: known finding of C16, decided by its twin
        require!(!want.empty_text_case);
    }
    if mask & C08 != 0 {
        // C08 is stated for: no trimming, no expansion, no name trimming/checking
        require!(!cfg.trim_text_start && !cfg.trim_text_end && !cfg.expand_empty_elements);
        require!(!cfg.trim_markup_names_in_closing_tags && !cfg.check_end_names && cfg.allow_unmatched_ends);
    }

    // ---- the real step -----------------------------------------------------------------------
    let mut reader = Reader::verif_from_state(rest, state, offset, last_err, cfg.to_real(), opened_buffer, opened_starts);
    let res = reader.read_event();
    let pos_after = reader.buffer_position();
    let err_after = reader.error_position();
    let (state_after, offset_after, _, buf_after, starts_after) = reader.verif_state();

    // ---- C03: totality (panics/overflows are checked by Kani itself) ----------------------------
    if mask & C03 != 0 {
        ensure!(pos_after >= pos_before, "C03: position never decreases");
        ensure!(pos_after <= offset + total as u64, "C03: position never exceeds the input length");
        ensure!(err_after <= pos_after, "C03: error position is not after the current position");
        if state == ST_DONE {
            ensure!(matches!(res, Ok(Event::Eof)) && state_after == ST_DONE && pos_after == pos_before, "C03: Eof is final");
        }
        match &res {
            Ok(Event::Eof) => ensure!(state_after == ST_DONE, "C03: after Eof the reader is finished"),
            Err(Error::Syntax(_)) => ensure!(state_after == ST_DONE, "C03: after a syntax error the reader is finished"),
            _ => {}
        }
        // progress: every call consumes input or moves along Init -> Text, Empty -> Text, -> Done
        let progressed = offset_after > offset
            || (state == ST_INIT && state_after != ST_INIT)
            || (state == ST_EMPTY && state_after == ST_TEXT)
            || state_after == ST_DONE;
        ensure!(progressed, "C03: every call makes progress (calls to Eof are linear in the input)");
        ensure!(state_after != ST_INIT, "C03: the reader never returns to its initial state");
        // the successor state satisfies the invariant the next call relies on (else `close_expanded_empty` would panic)
        ensure!(state_after != ST_EMPTY || starts_after.len() >= 1, "C03: the state reached cannot panic on the next call (an expanded empty element has its name on the stack)");
        ensure!(state_after != ST_MARKUP || offset_after >= 1, "C03: the state reached cannot underflow on the next call");
    }

    // ---- C01 / C16: same outcome as the reference ----------------------------------------------
    if mask & (C01 | C16 | C04 | C16_FINDING_ONLY) != 0 {
        match compare_outcome(&res, &want, rest, top, mask, region.ascii) {
            Outcome::Pass => {}
            o => return o,
        }
        // successor state and consumption (not after a fatal error: nothing can follow it)
        match want.out {
            Out::Syntax(_) => {
                ensure!(state_after == ST_DONE, "C01: a syntax error ends reading");
            }
            _ => {
                ensure!(state_after == want.next_state, "C01: next construct is looked for in the right mode");
                ensure!(
                    offset_after - offset == want.consumed as u64,
                    "C01: exactly the construct's bytes are consumed"
                );
            }
        }
    }

    // ---- C04: the open-element stack follows the true nesting ---------------------------------
    if mask & (C04 | C01) != 0 {
        match want.out {
            Out::Syntax(_) => {}
            _ => {
                let depth_after = starts_after.len();
                match want.stack {
                    StackOp::None => {
                        ensure!(depth_after == depth, "C04: stack depth unchanged");
                        ensure!(buf_after.len() == stack_bytes_before, "C04: stack names unchanged (length)");
                    }
                    StackOp::Pop => {
                        ensure!(depth_after + 1 == depth, "C04: end tag pops exactly one open element");
                        ensure!(
                            buf_after.len() + name_len[depth - 1] == stack_bytes_before,
                            "C04: end tag removes exactly the innermost name"
                        );
                    }
                    StackOp::Push { start, len: nl } => {
                        if want.next_state == ST_EMPTY {
                            // the name remembered here is the name of the End event of the expansion
                            ensure!(
                                depth_after == depth + 1 && buf_after.len() == stack_bytes_before + nl,
                                "C16: an expanded empty element ends with its own name"
                            );
                        }
                        ensure!(depth_after == depth + 1, "C04: start tag pushes one open element");
                        ensure!(buf_after.len() == stack_bytes_before + nl, "C04: start tag records its name (length)");
                        ensure!(starts_after[depth] == stack_bytes_before, "C04: start tag records where its name begins");
                        forall_idx!(j < nl => {
                            ensure!(buf_after[stack_bytes_before + j] == rest[start + j], "C04: start tag records its name");
                        });
                    }
                }
                // what was below stays what it was
                let keep = if depth_after < depth { depth_after } else { depth };
                let mut acc = 0usize;
                let mut d = 0;
                while d < D {
                    if d < keep {
                        ensure!(starts_after[d] == acc, "C04: outer open elements keep their place");
                        let nl = name_len[d];
                        forall_idx!(j < nl => {
                            ensure!(buf_after[acc + j] == names[d * L + j], "C04: outer open elements keep their names");
                        });
                        acc += nl;
                    }
                    d += 1;
                }
            }
        }
        if let Err(Error::IllFormed(_)) = &res {
            ensure!(state_after != ST_DONE, "C04: reading continues after an ill-formedness error");
        }
    }

    // ---- C08: the span of the event is exactly open ++ content ++ close -----------------------
    if mask & C08 != 0 {
        if let Ok(e) = &res {
            // span of this step in `rest` coordinates; `lead` = 1 if the span starts with the `<`
            // that was consumed by the previous step
            let lead: usize = if state == ST_MARKUP { 1 } else { 0 };
            let consumed = (offset_after - offset) as usize;
            let trail: usize = if state_after == ST_MARKUP { 1 } else { 0 };
            // bytes of rest that belong to this event's span
            let span_end = consumed - trail;
            let (open, close): (&[u8], &[u8]) = match e {
                Event::Start(_) => (b"<", b">"),
                Event::Empty(_) => (b"<", b"/>"),
                Event::End(_) => (b"</", b">"),
                Event::Comment(_) => (b"<!--", b"-->"),
                Event::CData(_) => (b"<![CDATA[", b"]]>"),
                Event::PI(_) | Event::Decl(_) => (b"<?", b"?>"),
                Event::DocType(_) => (b"<!DOCTYPE", b">"),
                Event::Text(_) | Event::Eof => (b"", b""),
            };
            let content: &[u8] = e;
            // markup events reached from text mode skipped no text: the `<` is rest[bom]
            let markup = open.len() > 0;
            let span_start_in_rest = want.bom; // first byte of the span inside rest (after the lead)
            if markup {
                // where the bytes after `<` begin
                let after_lt = if lead == 1 { span_start_in_rest } else { span_start_in_rest + 1 };
                if lead == 0 {
                    ensure!(rest[span_start_in_rest] == b'<', "C08: markup span starts at its '<'");
                }
                // open delimiter (after `<`)
                let mut k = 1;
                while k < open.len() {
                    let b = rest[after_lt + k - 1];
                    let o = open[k];
                    let same = if matches!(e, Event::DocType(_)) { b.to_ascii_uppercase() == o } else { b == o };
                    ensure!(same, "C08: span begins with the opening delimiter");
                    k += 1;
                }
                let mut cstart = after_lt + open.len() - 1;
                if let Event::DocType(_) = e {
                    // whitespace between the keyword and the content belongs to the delimiter
                    let mut w = 0;
                    while w < P {
                        if cstart < span_end && is_ws(rest[cstart]) {
                            cstart += 1;
                        }
                        w += 1;
                    }
                }
                ensure!(cstart + content.len() + close.len() == span_end, "C08: span = open + content + close, nothing more");
                forall_idx!(j < content.len() => {
                    ensure!(content[j] == rest[cstart + j], "C08: content is the bytes between the delimiters");
                });
                let mut k = 0;
                while k < close.len() {
                    ensure!(rest[cstart + content.len() + k] == close[k], "C08: span ends with the closing delimiter");
                    k += 1;
                }
            } else if let Event::Text(_) = e {
                ensure!(span_start_in_rest + content.len() == span_end, "C08: text span is exactly the text");
                forall_idx!(j < content.len() => {
                    ensure!(content[j] == rest[span_start_in_rest + j], "C08: text content is the bytes of its span");
                });
            } else {
                // Eof: everything was consumed
                ensure!(offset_after == offset + total as u64, "C08: final position is the input length");
            }
        }
    }

    if region.covers & (1 << 0) != 0 {
        witness!(matches!(res, Ok(Event::Start(_))), "Start");
    }
    if region.covers & (1 << 1) != 0 {
        witness!(matches!(res, Ok(Event::End(_))), "End");
    }
    if region.covers & (1 << 2) != 0 {
        witness!(matches!(res, Ok(Event::Empty(_))), "Empty");
    }
    if region.covers & (1 << 3) != 0 {
        witness!(matches!(res, Ok(Event::Text(_))), "Text");
    }
    if region.covers & (1 << 4) != 0 {
        witness!(matches!(res, Ok(Event::Comment(_))), "Comment");
    }
    if region.covers & (1 << 5) != 0 {
        witness!(matches!(res, Ok(Event::CData(_))), "CData");
    }
    if region.covers & (1 << 6) != 0 {
        witness!(matches!(res, Ok(Event::PI(_))), "PI");
    }
    if region.covers & (1 << 7) != 0 {
        witness!(matches!(res, Ok(Event::Decl(_))), "Decl");
    }
    if region.covers & (1 << 8) != 0 {
        witness!(matches!(res, Ok(Event::DocType(_))), "DocType");
    }
    if region.covers & (1 << 9) != 0 {
        witness!(matches!(res, Ok(Event::Eof)), "Eof");
    }
    if region.covers & (1 << 10) != 0 {
        witness!(matches!(res, Err(Error::Syntax(_))), "SyntaxError");
    }
    if region.covers & (1 << 11) != 0 {
        witness!(matches!(res, Err(Error::IllFormed(_))), "IllFormedError");
    }

    core::mem::forget(res);
    core::mem::forget(reader);
    Outcome::Pass
}

/// The outcome of a real step / event constructor against the reference's outcome.
pub fn compare_outcome(
    res: &Result<Event, Error>,
    want: &Step,
    rest: &[u8],
    top: Top,
    mask: u32,
    ascii: bool,
) -> Outcome {
    match (res, &want.out) {
        (Ok(e), Out::Event { kind, start, len: clen, name_len: nl }) => {
            let k = kind_of(e);
            if mask & C16_FINDING_ONLY != 0 {
                // twin obligation of the known finding: inputs are restricted to its region
                ensure!(k == *kind, "C16: whitespace-only text trimmed to nothing is not emitted");
            }
            ensure!(k == *kind, "C01: event kind is the one the grammar assigns");
            let content: &[u8] = e;
            ensure!(content.len() == *clen, "C01: event content has exactly the construct's length");
            forall_idx!(j < *clen => {
                ensure!(content[j] == rest[*start + j], "C01: event content is exactly the raw bytes of the construct");
            });
            match e {
                Event::Start(s) | Event::Empty(s) => {
                    ensure!(s.name().as_ref().len() == *nl, "C01: tag name ends at the first whitespace");
                }
                Event::PI(p) => {
                    ensure!(p.target().len() == *nl, "C01: PI target ends at the first whitespace");
                }
                _ => {}
            }
        }
        (Ok(Event::End(e)), Out::EndOfExpanded) => {
            let nm: &[u8] = e;
            let want_nm = top.name.unwrap();
            ensure!(nm.len() == want_nm.len(), "C16: expanded empty element ends with the same name (length)");
            forall_idx!(j < want_nm.len() => {
                ensure!(nm[j] == want_nm[j], "C16: expanded empty element ends with the same name");
            });
        }
        (Err(Error::Syntax(got)), Out::Syntax(w)) => {
            let ok = match w {
                Syn::Any => true,
                Syn::InvalidBang => *got == SyntaxError::InvalidBangMarkup,
                Syn::UnclosedPI => *got == SyntaxError::UnclosedPIOrXmlDecl,
                Syn::UnclosedComment => *got == SyntaxError::UnclosedComment,
                Syn::UnclosedDoctype => *got == SyntaxError::UnclosedDoctype,
                Syn::UnclosedCData => *got == SyntaxError::UnclosedCData,
                Syn::UnclosedTag => *got == SyntaxError::UnclosedTag,
            };
            ensure!(ok, "C01: input stopping inside a construct gives that construct's syntax error");
        }
        (Err(Error::IllFormed(got)), Out::IllFormed { err, start, len: flen }) => {
            match (got, err) {
                (IllFormedError::MissingDoctypeName, Ill::MissingDoctypeName) => {}
                (IllFormedError::DoubleHyphenInComment, Ill::DoubleHyphen) => {}
                (IllFormedError::MismatchedEndTag { expected, found }, Ill::Mismatched) => {
                    if mask & C04 != 0 {
                        // names are reported as text: compared when they are ASCII
                        let exp = top.name.unwrap();
                        if ascii || ascii_slice(exp) && ascii_slice(&rest[*start..*start + *flen]) {
                            ensure!(expected.len() == exp.len(), "C04: mismatch error names the open element (length)");
                            forall_idx!(j < exp.len() => {
                                ensure!(expected.as_bytes()[j] == exp[j], "C04: mismatch error names the open element");
                            });
                            ensure!(found.len() == *flen, "C04: mismatch error names the found end tag (length)");
                            forall_idx!(j < *flen => {
                                ensure!(found.as_bytes()[j] == rest[*start + j], "C04: mismatch error names the found end tag");
                            });
                        }
                    }
                }
                (IllFormedError::UnmatchedEndTag(found), Ill::Unmatched) => {
                    if mask & C04 != 0 && (ascii || ascii_slice(&rest[*start..*start + *flen])) {
                        ensure!(found.len() == *flen, "C04: unmatched error names the end tag (length)");
                        forall_idx!(j < *flen => {
                            ensure!(found.as_bytes()[j] == rest[*start + j], "C04: unmatched error names the end tag");
                        });
                    }
                }
                _ => {
                    ensure!(false, "C04: ill-formedness error is the documented one");
                }
            }
        }
        _ => {
            if mask & C16_FINDING_ONLY != 0 {
                ensure!(false, "C16: whitespace-only text trimmed to nothing is not emitted");
            }
            if mask & C04 != 0 {
                let about_end = matches!(want.out, Out::IllFormed { err: Ill::Mismatched, .. } | Out::IllFormed { err: Ill::Unmatched, .. } | Out::Event { kind: Kind::End, .. })
                    || matches!(res, Ok(Event::End(_)) | Err(Error::IllFormed(IllFormedError::MismatchedEndTag { .. })) | Err(Error::IllFormed(IllFormedError::UnmatchedEndTag(_))));
                if about_end {
                    ensure!(false, "C04: an end tag is accepted or rejected exactly as configured (byte-for-byte name comparison, unmatched ends)");
                }
            }
            ensure!(false, "C01: outcome class (event / syntax error / ill-formed error) is the one the grammar assigns");
        }
    }
    Outcome::Pass
}

fn ascii_slice(b: &[u8]) -> bool {
    let mut i = 0;
    while i < b.len() {
        if b[i] >= 0x80 {
            return false;
        }
        i += 1;
    }
    true
}

/// Kernel: the event constructors of the parser state (`ReaderState::emit_*`, through hooks) on the
/// bytes a correct scanner hands over, against the reference classification of `bytes ++ ">"`.
/// `sel`: 0 emit_bang(CData) 1 emit_bang(Comment) 2 emit_bang(DocType) 3 emit_question_mark 4 emit_end 5 emit_start
/// raw: [len, cfg, gap, depth, name_len, name[2], bytes[N]]; P = N + 1
pub fn check_emit<const N: usize, const P: usize>(raw: &[u8], sel: u8, mask: u32) -> Outcome {
    let mut r = Raw::new(raw);
    let len = r.u8() as usize;
    let cfg_bits = r.u8() & 0x7f;
    let gap = r.u8() as u64;
    let depth = r.u8() as usize;
    let nlen = r.u8() as usize;
    let name: [u8; 2] = r.arr();
    let mut bytes: [u8; N] = r.arr();
    require!(len <= N && depth <= 1 && nlen <= 2);
    // the dispatcher guarantees the first byte
    match sel {
        0 | 1 | 2 => {
            require!(len >= 2);
            bytes[0] = b'!';
            bytes[1] = if sel == 0 { b'[' } else if sel == 1 { b'-' } else { bytes[1] };
            require!(sel != 2 || bytes[1] == b'D' || bytes[1] == b'd');
        }
        3 => {
            require!(len >= 1);
            bytes[0] = b'?';
        }
        4 => {
            require!(len >= 1);
            bytes[0] = b'/';
        }
        _ => {
            require!(len == 0 || (bytes[0] != b'!' && bytes[0] != b'?' && bytes[0] != b'/'));
        }
    }
    let mut i = 0;
    while i < 2 {
        require!(i >= nlen || !(is_ws(name[i]) || name[i] == b'>' || name[i] == b'"' || name[i] == b'\''));
        i += 1;
    }
    require!(nlen == 0 || (name[0] != b'!' && name[0] != b'?' && name[0] != b'/'));
    let mut input = [0u8; P];
    i = 0;
    while i < N {
        input[i] = bytes[i];
        i += 1;
    }
    // the `>` that the scanner found directly after the bytes
    require!(len < P);
    input[len] = b'>';
    let rest: &[u8] = &input[..len + 1];
    let buf: &[u8] = &input[..len];
    let cfg = Cfg::from_bits(cfg_bits);
    let top = Top { name: if depth > 0 { Some(&name[..nlen]) } else { None } };
    let want = ref_step(ST_MARKUP, &cfg, rest, top);
    // scanner contract (decided by K1-K3): the construct ends exactly at that `>`
    match want.out {
        Out::Syntax(_) => {}
        _ => require!(want.consumed == len + 1),
    }
    // a comment/CDATA scanner hands over bytes ending with `--` / `]]`; a PI scanner bytes ending with `?`
    match sel {
        0 => require!(len >= 3 && buf[len - 1] == b']' && buf[len - 2] == b']'),
        1 => require!(len >= 5 && buf[len - 1] == b'-' && buf[len - 2] == b'-'),
        2 => require!(find_doctype_end(rest, 0, 0).0 == Some(len)),
        3 => require!(find_seq(rest, 0, b"?>") == Some(len - 1) || len == 1),
        _ => require!(find_tag_end(rest, 0) == Some(len)),
    }

    let offset = 1 + len as u64 + 1 + gap; // after the `>`
    let mut ob: Vec<u8> = Vec::with_capacity(N + 4);
    let mut os: Vec<usize> = Vec::with_capacity(3);
    if depth == 1 {
        os.push(0);
        i = 0;
        while i < 2 {
            if i < nlen {
                ob.push(name[i]);
            }
            i += 1;
        }
    }
    let mut reader = Reader::verif_from_state(&b""[..], ST_TEXT, offset, 0, cfg.to_real(), ob, os);
    let res: Result<Event, Error> = match sel {
        0 | 1 | 2 => reader.verif_emit_bang(sel, buf),
        3 => reader.verif_emit_question_mark(buf),
        4 => reader.verif_emit_end(buf),
        _ => Ok(reader.verif_emit_start(buf)),
    };
    match compare_outcome(&res, &want, rest, top, mask, false) {
        Outcome::Pass => {}
        o => return o,
    }
    let (state_after, _, err_after, buf_after, starts_after) = reader.verif_state();
    if mask & C03 != 0 {
        ensure!(err_after <= offset, "C03: error position is not after the current position");
        ensure!(state_after != ST_EMPTY || starts_after.len() >= 1, "C03: the state reached cannot panic on the next call (an expanded empty element has its name on the stack)");
    }
    match want.stack {
        StackOp::None => ensure!(starts_after.len() == depth, "C04: stack depth unchanged"),
        StackOp::Pop => ensure!(starts_after.len() + 1 == depth && buf_after.len() == 0, "C04: end tag pops exactly one open element"),
        StackOp::Push { start, len: nl } => {
            let base = if depth == 1 { nlen } else { 0 };
            if want.next_state == ST_EMPTY {
                ensure!(
                    starts_after.len() == depth + 1 && buf_after.len() == base + nl,
                    "C16: an expanded empty element ends with its own name"
                );
            }
            ensure!(starts_after.len() == depth + 1, "C04: start tag pushes one open element");
            ensure!(buf_after.len() == base + nl && starts_after[depth] == base, "C04: start tag records its name (length)");
            forall_idx!(j < nl => {
                ensure!(buf_after[base + j] == rest[start + j], "C04: start tag records its name");
            });
        }
    }
    match want.out {
        Out::Event { kind: Kind::Start, .. } if want.next_state == ST_EMPTY => {
            ensure!(state_after == ST_EMPTY, "C16: an expanded empty element is followed by its end");
        }
        _ => ensure!(state_after == ST_TEXT, "C01: event constructors leave the mode alone"),
    }
    witness!(matches!(res, Ok(Event::CData(_))), "CData");
    witness!(matches!(res, Ok(Event::Comment(_))), "Comment");
    witness!(matches!(res, Ok(Event::DocType(_))), "DocType");
    witness!(matches!(res, Ok(Event::Decl(_))), "Decl");
    witness!(matches!(res, Err(Error::IllFormed(IllFormedError::DoubleHyphenInComment))), "DoubleHyphen");
    witness!(matches!(res, Err(Error::IllFormed(IllFormedError::MissingDoctypeName))), "MissingDoctypeName");
    core::mem::forget(res);
    core::mem::forget(reader);
    Outcome::Pass
}
