//! C19 (event writer): one `Writer::write_event` from an arbitrary indentation state, plain vs
//! indenting writer, through a recording sink (the I/O environment). C08/C09: the delimiter table
//! of the plain writer.

use crate::common::*;
use crate::{ensure, forall_idx, require, witness};
use quick_xml::events::{BytesCData, BytesDecl, BytesEnd, BytesPI, BytesStart, BytesText, Event};
use quick_xml::Writer;
use std::io;

/// Records what is written without a heap: per `write` call its length, its first byte and the byte
/// at one solver-chosen index (so that "every byte of that call is X" can be asserted loop-free).
pub struct Sink {
    pub n: usize,
    pub len: [usize; 8],
    pub first: [u8; 8],
    pub probe: usize,
    pub at_probe: [u8; 8],
    pub has_probe: [bool; 8],
    pub total: usize,
}
impl Sink {
    pub fn new(probe: usize) -> Self {
        Sink { n: 0, len: [0; 8], first: [0; 8], probe, at_probe: [0; 8], has_probe: [false; 8], total: 0 }
    }
}
impl io::Write for Sink {
    fn write(&mut self, buf: &[u8]) -> io::Result<usize> {
        if self.n < 8 {
            let k = self.n;
            self.len[k] = buf.len();
            if buf.len() > 0 {
                self.first[k] = buf[0];
            }
            if self.probe < buf.len() {
                self.at_probe[k] = buf[self.probe];
                self.has_probe[k] = true;
            }
        }
        self.n += 1;
        self.total += buf.len();
        Ok(buf.len())
    }
    fn flush(&mut self) -> io::Result<()> {
        Ok(())
    }
}

fn event_of(kind: u8, payload: &'static str) -> Event<'static> {
    match kind {
        0 => Event::Start(BytesStart::new(payload)),
        1 => Event::End(BytesEnd::new(payload)),
        2 => Event::Empty(BytesStart::new(payload)),
        3 => Event::Text(BytesText::from_escaped(payload)),
        4 => Event::Comment(BytesText::from_escaped(payload)),
        5 => Event::CData(BytesCData::new(payload)),
        6 => Event::Decl(BytesDecl::from_start(BytesStart::from_content("xml version='1.0'", 3))),
        7 => Event::PI(BytesPI::new(payload)),
        8 => Event::DocType(BytesText::from_escaped(payload)),
        _ => Event::Eof,
    }
}

/// raw: [ch, size, slb, cur(2), probe(2)]; `grow_path`: pre-filled indent buffer of 128 and a depth close
/// to it (exercises growth past the preallocation), otherwise a large buffer.
pub fn check_indent_step(raw: &[u8], kind: u8, grow_path: bool) -> Outcome {
    let mut r = Raw::new(raw);
    let ch = r.u8();
    let size = r.u8() as usize;
    let slb = r.bool();
    let cur = r.u16() as usize;
    let probe = r.u16() as usize;
    require!(size <= 9);
    let indents_len = if grow_path { 128 } else { 256 };
    if grow_path {
        require!(cur >= 110 && cur <= 128);
    } else {
        require!(cur <= 200);
    }

    // plain writer
    let mut plain = Writer::new(Sink::new(usize::MAX));
    let okp = plain.write_event(event_of(kind, "v"));
    ensure!(okp.is_ok(), "C19: plain write succeeds on a sink that never fails");
    let p = plain.into_inner();

    // indenting writer in the given state
    let mut ind = Writer::verif_with_indent_state(Sink::new(probe), ch, size, slb, cur, indents_len);
    let oki = ind.write_event(event_of(kind, "v"));
    ensure!(oki.is_ok(), "C19: indented write succeeds on a sink that never fails");
    let (slb2, cur2, ilen2) = ind.verif_indent_state().unwrap();
    let s = ind.into_inner();

    let is_text = kind == 3 || kind == 5;
    let is_eof = kind == 9;
    let extra = s.n - p.n;
    // an empty indent is not written at all (`write_all(&[])` makes no call)
    ensure!(s.n >= p.n && extra <= 2, "C19: indentation only adds a line break and an indent");
    if extra >= 1 {
        ensure!(!is_text && !is_eof, "C19: nothing is inserted next to text, CDATA or the end of the document");
        ensure!(slb, "C19: nothing is inserted before markup that follows text or CDATA");
        ensure!(s.len[0] == 1 && s.first[0] == b'\n', "C19: the insertion starts with a line break");
    }
    if extra == 2 {
        // every byte of the indent call is the indent character (probe index chosen by the solver)
        if s.has_probe[1] {
            ensure!(s.at_probe[1] == ch, "C19: the insertion consists of indent characters only");
        }
    }
    // the rest is byte-for-byte the plain output: same calls, same lengths, same first bytes
    forall_idx!(k < p.n => {
        if k < 6 {
            ensure!(s.len[k + extra] == p.len[k] && s.first[k + extra] == p.first[k], "C19: apart from the insertion the output is the plain output");
        }
    });
    ensure!(
        s.total == p.total + if extra == 2 { 1 + s.len[1] } else if extra == 1 { 1 } else { 0 },
        "C19: apart from the insertion the output is the plain output (length)"
    );
    // invariant carried by the induction: a line break is only due after markup
    ensure!(slb2 == !is_text, "C19: a line break is due exactly after markup");
    ensure!(cur2 <= ilen2, "C19: the indent never exceeds its buffer");
    if slb && !is_text && !is_eof {
        ensure!(extra >= 1, "C19: (indentation is applied before markup that follows markup)");
    }
    witness!(ilen2 > 128, "indent buffer grown past the preallocation");
    witness!(kind == 1 && cur < size, "shrink saturates at zero");
    core::mem::forget(okp);
    core::mem::forget(oki);
    Outcome::Pass
}

/// C08/C09 K: the plain writer emits exactly open ++ payload ++ close for each event kind.
/// raw: [len, bytes[N]] payload bytes symbolic (7-bit)
pub fn check_writer_table<const N: usize>(raw: &[u8], kind: u8) -> Outcome {
    let mut r = Raw::new(raw);
    let len = r.u8() as usize;
    let bytes: [u8; N] = r.arr();
    require!(len <= N);
    let mut i = 0;
    while i < N {
        require!(bytes[i] < 0x80);
        i += 1;
    }
    let payload = unsafe { core::str::from_utf8_unchecked(&bytes[..len]) };
    let ev = match kind {
        0 => Event::Start(BytesStart::from_content(payload, 0)),
        1 => Event::End(BytesEnd::new(payload)),
        2 => Event::Empty(BytesStart::from_content(payload, 0)),
        3 => Event::Text(BytesText::from_escaped(payload)),
        4 => Event::Comment(BytesText::from_escaped(payload)),
        5 => Event::CData(BytesCData::new(payload)),
        6 => Event::Decl(BytesDecl::from_start(BytesStart::from_content(payload, 0))),
        7 => Event::PI(BytesPI::new(payload)),
        8 => Event::DocType(BytesText::from_escaped(payload)),
        _ => Event::Eof,
    };
    let mut out: Vec<u8> = Vec::with_capacity(N + 16);
    let mut w = Writer::new(&mut out);
    let ok = w.write_event(ev);
    ensure!(ok.is_ok(), "C09: writing to a vector succeeds");
    let (open, close): (&[u8], &[u8]) = match kind {
        0 => (b"<", b">"),
        1 => (b"</", b">"),
        2 => (b"<", b"/>"),
        3 => (b"", b""),
        4 => (b"<!--", b"-->"),
        5 => (b"<![CDATA[", b"]]>"),
        6 | 7 => (b"<?", b"?>"),
        8 => (b"<!DOCTYPE ", b">"),
        _ => (b"", b""),
    };
    let plen = if kind == 9 { 0 } else { len };
    ensure!(out.len() == open.len() + plen + close.len(), "C08: the writer emits open + payload + close and nothing else");
    forall_idx!(j < open.len() => {
        ensure!(out[j] == open[j], "C08: the writer emits the opening delimiter of the event kind");
    });
    forall_idx!(j < plen => {
        ensure!(out[open.len() + j] == bytes[j], "C08: the writer emits the payload unchanged");
    });
    forall_idx!(j < close.len() => {
        ensure!(out[open.len() + plen + j] == close[j], "C08: the writer emits the closing delimiter of the event kind");
    });
    core::mem::forget(ok);
    Outcome::Pass
}

/// C19: two Start events in a row from a depth close to the preallocated 128 bytes: the indent buffer
/// grows (re-allocating) in the first step and has to be extended again in the second; the indent never
/// exceeds its buffer and a third markup event can be written. raw: [ch, size, slb, cur(2), probe(2)]
pub fn check_indent_two_starts(raw: &[u8], cur: usize) -> Outcome {
    // `cur` (the depth before the two events) is concrete per instance: with a symbolic depth the
    // counterexample trace (needed for the native replay) does not fit in memory
    let mut r = Raw::new(raw);
    let ch = r.u8();
    let size = r.u8() as usize;
    let slb = r.bool();
    let _ = r.u16();
    let probe = r.u16() as usize;
    require!(size <= 9);
    let mut ind = Writer::verif_with_indent_state(Sink::new(probe), ch, size, slb, cur, 128);
    let a = ind.write_event(event_of(0, "v"));
    let b = ind.write_event(event_of(0, "v"));
    let (_, cur2, ilen2) = ind.verif_indent_state().unwrap();
    ensure!(cur2 <= ilen2, "C19: the indent never exceeds its buffer");
    let c = ind.write_event(event_of(4, "v"));
    ensure!(a.is_ok() && b.is_ok() && c.is_ok(), "C19: indented write succeeds on a sink that never fails");
    witness!(ilen2 > 128 && cur2 == cur + 2 * size, "indent buffer grown twice");
    core::mem::forget(a);
    core::mem::forget(b);
    core::mem::forget(c);
    Outcome::Pass
}
