//! Kernel obligations on the end-of-construct scanners (C01 K1-K4, C02 split invariance).

use crate::common::*;
use crate::refmodel::tok::*;
use crate::{ensure, require, witness};
use quick_xml::parser::{ElementParser, Parser, PiParser};

fn ep_from(code: u8) -> ElementParser {
    match code % 3 {
        0 => ElementParser::Outside,
        1 => ElementParser::SingleQ,
        _ => ElementParser::DoubleQ,
    }
}
fn ep_code(p: ElementParser) -> u8 {
    match p {
        ElementParser::Outside => 0,
        ElementParser::SingleQ => 1,
        ElementParser::DoubleQ => 2,
    }
}

/// Reference: quote-aware search of `>` from quote state `q` (0 outside, 1 in '..', 2 in "..").
/// Returns the index and the quote state at the end of the bytes when not found.
fn ref_elem(b: &[u8], mut q: u8) -> (Option<usize>, u8) {
    let mut i = 0;
    while i < b.len() {
        let c = b[i];
        match q {
            0 => {
                if c == b'>' {
                    return (Some(i), 0);
                } else if c == b'\'' {
                    q = 1
                } else if c == b'"' {
                    q = 2
                }
            }
            1 => {
                if c == b'\'' {
                    q = 0
                }
            }
            _ => {
                if c == b'"' {
                    q = 0
                }
            }
        }
        i += 1;
    }
    (None, q)
}

/// K1: `ElementParser::feed` == reference, from every start state, incl. the carried state.
/// raw: [len, state, bytes..N]
pub fn check_element_feed<const N: usize>(raw: &[u8]) -> Outcome {
    let mut r = Raw::new(raw);
    let len = r.u8() as usize;
    let q0 = r.u8();
    let bytes: [u8; N] = r.arr();
    require!(len <= N && q0 < 3);
    let b = &bytes[..len];

    let mut p = ep_from(q0);
    let got = p.feed(b);
    let (want, q1) = ref_elem(b, q0);
    ensure!(got == want, "C01:K1 ElementParser::feed finds the first unquoted '>'");
    if want.is_none() {
        ensure!(ep_code(p) == q1, "C02:K1 ElementParser carries the quote state");
    }
    witness!(got.is_some() && q0 != 0, "found after leaving a carried quote");
    witness!(got.is_none() && q1 != 0, "ends inside a quote");
    Outcome::Pass
}

/// C02 K: splitting the bytes at any cut gives the same result as feeding them at once.
/// raw: [len, cut, state, bytes..N]
pub fn check_element_split<const N: usize>(raw: &[u8]) -> Outcome {
    let mut r = Raw::new(raw);
    let len = r.u8() as usize;
    let cut = r.u8() as usize;
    let q0 = r.u8();
    let bytes: [u8; N] = r.arr();
    require!(len <= N && cut <= len && q0 < 3);
    let b = &bytes[..len];

    let mut whole = ep_from(q0);
    let want = whole.feed(b);

    let mut p = ep_from(q0);
    let got = match p.feed(&b[..cut]) {
        Some(i) => Some(i),
        None => p.feed(&b[cut..]).map(|i| i + cut),
    };
    ensure!(got == want, "C02:K ElementParser result independent of the cut");
    if want.is_none() {
        ensure!(ep_code(p) == ep_code(whole), "C02:K ElementParser carry independent of the cut");
    }
    witness!(want.is_some() && cut > 0 && want.unwrap() >= cut && ep_code(ep_from(q0)) == 0, "end found in second piece");
    Outcome::Pass
}

/// Reference for the PI scanner: index of the first `>` directly preceded by `?`, where the byte
/// before `b[0]` was `?` iff `carry`.
fn ref_pi(b: &[u8], carry: bool) -> (Option<usize>, bool) {
    let mut prev_q = carry;
    let mut i = 0;
    while i < b.len() {
        if b[i] == b'>' && prev_q {
            return (Some(i), false);
        }
        prev_q = b[i] == b'?';
        i += 1;
    }
    (None, prev_q)
}

/// K2: `PiParser::feed` == reference incl. carry in/out. raw: [len, carry, bytes..N]
pub fn check_pi_feed<const N: usize>(raw: &[u8]) -> Outcome {
    let mut r = Raw::new(raw);
    let len = r.u8() as usize;
    let carry = r.bool();
    let bytes: [u8; N] = r.arr();
    // a source never hands out an empty piece (empty = end of input)
    require!(len <= N && len >= 1);
    let b = &bytes[..len];
    let mut p = PiParser(carry);
    let got = p.feed(b);
    let (want, c1) = ref_pi(b, carry);
    ensure!(got == want, "C01:K2 PiParser::feed finds the first '?>'");
    if want.is_none() {
        ensure!(p.0 == c1, "C02:K2 PiParser carries the trailing '?'");
    }
    witness!(got == Some(0), "terminator split as ?|>");
    witness!(got.is_none() && c1, "piece ends with ?");
    Outcome::Pass
}

/// C02 K: PI split invariance. raw: [len, cut, carry, bytes..N]
pub fn check_pi_split<const N: usize>(raw: &[u8]) -> Outcome {
    let mut r = Raw::new(raw);
    let len = r.u8() as usize;
    let cut = r.u8() as usize;
    let carry = r.bool();
    let bytes: [u8; N] = r.arr();
    // both pieces non-empty
    require!(len <= N && cut >= 1 && cut < len);
    let b = &bytes[..len];
    let mut whole = PiParser(carry);
    let want = whole.feed(b);
    let mut p = PiParser(carry);
    let got = match p.feed(&b[..cut]) {
        Some(i) => Some(i),
        None => p.feed(&b[cut..]).map(|i| i + cut),
    };
    ensure!(got == want, "C02:K PiParser result independent of the cut");
    if want.is_none() {
        ensure!(p.0 == whole.0, "C02:K PiParser carry independent of the cut");
    }
    witness!(want.is_some() && want.unwrap() == cut, "cut between ? and >");
    Outcome::Pass
}

/// Reference end detection for `<!` constructs. `all` is everything after `<` (starting with `!`).
/// Returns the index of the closing `>` in `all`.
fn ref_bang_end(kind: u8, all: &[u8]) -> Option<usize> {
    match kind {
        // CDATA: first `]]>`
        0 => find_seq(all, 0, b"]]>").map(|j| j + 2),
        // comment: first `-->` whose `>` is at index >= 5 (`!---->` is the shortest)
        1 => {
            let mut from = 0;
            loop {
                match find_seq(all, from, b"-->") {
                    None => return None,
                    Some(j) => {
                        if j + 2 >= 5 {
                            return Some(j + 2);
                        }
                        from = j + 1;
                    }
                }
            }
        }
        _ => find_doctype_end(all, 0, 0).0,
    }
}

/// K3: `BangType::parse(&[], chunk)` == reference end detection.
/// raw: [len, kind, bytes..N]
pub fn check_bang_parse<const N: usize>(raw: &[u8]) -> Outcome {
    let mut r = Raw::new(raw);
    let len = r.u8() as usize;
    let kind = r.u8();
    let bytes: [u8; N] = r.arr();
    require!(len <= N && kind < 3);
    let b = &bytes[..len];
    let got = quick_xml::reader::verif_bang_parse(kind, 0, &[], b);
    let want = ref_bang_end(kind, b);
    match (got, want) {
        (None, None) => {}
        (Some((clen, used, bal)), Some(j)) => {
            ensure!(clen == j && used == j + 1, "C01:K3 BangType::parse ends at the reference terminator");
            ensure!(kind != 2 || bal == 0, "C01:K3 DOCTYPE balance is zero at its end");
        }
        _ => {
            ensure!(false, "C01:K3 BangType::parse finds a terminator iff the reference does");
        }
    }
    witness!(kind == 1 && want.is_some(), "comment end found");
    witness!(kind == 0 && want.is_some(), "cdata end found");
    witness!(kind == 2 && want.is_some() && want.unwrap() > 2, "doctype end after nested");
    Outcome::Pass
}

/// C02 K: `BangType::parse` split invariance: first piece `b[..cut]` without terminator is copied
/// to the buffer, the second piece is scanned with that buffer (and carried balance).
/// raw: [len, cut, kind, bytes..N]
pub fn check_bang_split<const N: usize>(raw: &[u8]) -> Outcome {
    let mut r = Raw::new(raw);
    let len = r.u8() as usize;
    let cut = r.u8() as usize;
    let kind = r.u8();
    let bytes: [u8; N] = r.arr();
    require!(len <= N && cut >= 1 && cut < len && kind < 3);
    let b = &bytes[..len];
    // the buffered source pushes `!` to the buffer itself and scans from the byte after it
    require!(b[0] == b'!');
    let want = ref_bang_end(kind, b);

    // first piece: b[1..cut] scanned with buf = "!"
    let first = quick_xml::reader::verif_bang_parse(kind, 0, &b[..1], &b[1..cut]);
    let got = match first {
        Some((_, used, _)) => Some(used), // index of `>` in b = 1 + used - 1
        None => {
            let bal = if kind == 2 {
                match quick_xml::reader::verif_doctype_balance_after(0, &b[1..cut]) {
                    Some(x) => x,
                    None => 0,
                }
            } else {
                0
            };
            quick_xml::reader::verif_bang_parse(kind, bal, &b[..cut], &b[cut..]).map(|(_, used, _)| cut + used - 1)
        }
    };
    ensure!(got == want, "C02:K BangType::parse result independent of the cut");
    witness!(kind == 1 && want == Some(cut), "comment terminator split as --|>");
    witness!(kind == 1 && want == Some(cut + 1), "comment terminator split as -|->");
    witness!(kind == 0 && want == Some(cut + 1), "cdata terminator split as ]|]>");
    witness!(kind == 2 && want.is_some() && want.unwrap() >= cut, "doctype end in second piece");
    Outcome::Pass
}

/// K4: `name_len` and `is_whitespace`. raw: [len, bytes..N]
pub fn check_name_len<const N: usize>(raw: &[u8]) -> Outcome {
    let mut r = Raw::new(raw);
    let len = r.u8() as usize;
    let bytes: [u8; N] = r.arr();
    require!(len <= N);
    let b = &bytes[..len];
    ensure!(quick_xml::utils::name_len(b) == ref_name_len(b, 0, len), "C01:K4 name ends at the first XML whitespace");
    let c = bytes[0];
    ensure!(quick_xml::utils::is_whitespace(c) == is_ws(c), "C01:K4 is_whitespace is exactly {20,09,0A,0D}");
    let t = quick_xml::utils::trim_xml_start(b);
    let mut s = 0;
    while s < len && is_ws(b[s]) {
        s += 1;
    }
    ensure!(t.len() == len - s, "C16:K4 trim_xml_start strips exactly the leading XML whitespace");
    let t = quick_xml::utils::trim_xml_end(b);
    let mut e = len;
    while e > 0 && is_ws(b[e - 1]) {
        e -= 1;
    }
    ensure!(t.len() == e, "C16:K4 trim_xml_end strips exactly the trailing XML whitespace");
    witness!(ref_name_len(b, 0, len) < len && ref_name_len(b, 0, len) > 0, "name followed by whitespace");
    Outcome::Pass
}

/// Deliberately false claim ("a tag never contains a quote before its end") used to test the
/// driver's counterexample -> playback -> native replay path.
pub fn check_selftest_false<const N: usize>(raw: &[u8]) -> Outcome {
    let mut r = Raw::new(raw);
    let len = r.u8() as usize;
    let q0 = r.u8();
    let bytes: [u8; N] = r.arr();
    require!(len <= N && q0 < 3);
    let b = &bytes[..len];
    let mut p = ep_from(q0);
    let got = p.feed(b);
    ensure!(got != Some(5), "SELFTEST: deliberately false");
    Outcome::Pass
}
