//! C16: the same input from the same reader state, read once with neutral settings and once with
//! solver-chosen settings; the second outcome must be the documented transformation of the first.
//! Both sides are the real reader. The name-checking switches are held neutral here (their effect is
//! errors, decided under C04).

use crate::common::*;
use crate::refmodel::tok::*;
use crate::{ensure, forall_idx, require, witness};
use quick_xml::errors::{Error, IllFormedError};
use quick_xml::events::Event;
use quick_xml::reader::Reader;

pub const FINDING_ONLY: u32 = 1;

fn kind_code(e: &Event) -> u8 {
    match e {
        Event::Start(_) => 0,
        Event::End(_) => 1,
        Event::Empty(_) => 2,
        Event::Text(_) => 3,
        Event::CData(_) => 4,
        Event::Comment(_) => 5,
        Event::PI(_) => 6,
        Event::Decl(_) => 7,
        Event::DocType(_) => 8,
        Event::Eof => 9,
    }
}

fn same_error(a: &Error, b: &Error) -> bool {
    match (a, b) {
        (Error::Syntax(x), Error::Syntax(y)) => x == y,
        (Error::IllFormed(x), Error::IllFormed(y)) => core::mem::discriminant(x) == core::mem::discriminant(y),
        _ => false,
    }
}

/// raw: [len, state, cfg, offset(2), bytes[N]]
/// `mode`: 0 = the main obligation (the finding's region assumed away), 1 = the finding's twin
pub fn check_cfgdiff<const N: usize, const P: usize>(raw: &[u8], region: &crate::props::step::Region, mode: u32) -> Outcome {
    let mut r = Raw::new(raw);
    let len_sym = r.u8() as usize;
    let len = if region.fixed_len == 255 { len_sym } else { region.fixed_len as usize };
    let mut state = r.u8();
    // neutral for the name checks: allow_unmatched_ends on, check_end_names off
    let cfg_bits = ((r.u8() & region.cfg_and & 0x7f) | region.cfg_or | 0x01) & !0x04;
    let offset = r.u16() as u64;
    let sym: [u8; N] = r.arr();
    require!(len <= N);
    if region.state != 255 {
        state = region.state;
    }
    require!(state == ST_MARKUP || state == ST_TEXT || state == ST_INIT);
    let plen = region.prefix.len();
    if plen == 0 && N > 0 {
        match region.first {
            0 => {}
            1 => require!(len >= 1 && sym[0] != b'!' && sym[0] != b'/' && sym[0] != b'?'),
            _ => require!(len >= 1),
        }
    }
    // an exact first byte is written, not assumed: the dispatch on it is then decided during
    // symbolic execution
    let mut sym = sym;
    if plen == 0 && N > 0 && region.first > 1 {
        sym[0] = region.first;
    }
    require!(state != ST_MARKUP || offset >= 1);
    require!(state != ST_INIT || offset == 0);
    let mut input = [0u8; P];
    let mut i = 0;
    while i < plen {
        input[i] = region.prefix[i];
        i += 1;
    }
    i = 0;
    while i < N {
        if plen + i < P {
            input[plen + i] = sym[i];
        }
        i += 1;
    }
    let total = plen + len;
    let rest: &[u8] = &input[..total];
    let pos_before = if state == ST_MARKUP { offset - 1 } else { offset };

    let neutral = Cfg::from_bits(0x01);
    let cfg = Cfg::from_bits(cfg_bits);

    // ---- neutral run ----------------------------------------------------------------------------
    let mut r0 = Reader::verif_from_state(rest, state, offset, pos_before, neutral.to_real(), Vec::with_capacity(N + 1), Vec::with_capacity(2));
    let e0 = r0.read_event();
    let (st0, off0, _, _, _) = r0.verif_state();
    let pos0 = r0.buffer_position();

    // ---- run under the settings ------------------------------------------------------------------
    let mut r1 = Reader::verif_from_state(rest, state, offset, pos_before, cfg.to_real(), Vec::with_capacity(N + 1), Vec::with_capacity(2));
    let e1 = r1.read_event();
    let (st1, off1, _, _, _) = r1.verif_state();
    let pos1 = r1.buffer_position();

    // what the documentation says e1 has to be, given e0
    match &e0 {
        Ok(Event::Text(t0)) => {
            let t: &[u8] = t0;
            // Config::trim_text_start / trim_text_end: strip XML whitespace; "if after that the event is empty it
            // will not be pushed"
            let mut s = 0;
            let mut e = t.len();
            if cfg.trim_text_start {
                while s < e && is_ws(t[s]) {
                    s += 1;
                }
            }
            if cfg.trim_text_end {
                while e > s && is_ws(t[e - 1]) {
                    e -= 1;
                }
            }
            let dropped = s == e;
            let finding_region = dropped && !cfg.trim_text_start && st0 == ST_MARKUP;
            if mode == FINDING_ONLY {
                require!(finding_region);
            } else {
                require!(!finding_region);
            }
            if !dropped {
                match &e1 {
                    Ok(Event::Text(t1)) => {
                        let t1: &[u8] = t1;
                        ensure!(t1.len() == e - s, "C16: trimming removes exactly the leading/trailing XML whitespace (length)");
                        forall_idx!(j < e - s => {
                            ensure!(t1[j] == t[s + j], "C16: trimming removes exactly the leading/trailing XML whitespace");
                        });
                    }
                    _ => {
                        ensure!(false, "C16: a text event that is not empty after trimming is still a text event");
                    }
                }
                ensure!(st1 == st0 && pos1 == pos0, "C16: trimming does not alter the position after the text");
            } else {
                // the text is not pushed: this call has to return what follows the text
                if st0 == ST_DONE {
                    ensure!(matches!(e1, Ok(Event::Eof)) && pos1 == pos0, "C16: whitespace-only trimmed text at the end of input is dropped");
                } else {
                    // continue the neutral-position reader under the settings: that is "what follows"
                    let rest2 = &rest[(off0 - offset) as usize..];
                    let mut r2 = Reader::verif_from_state(rest2, st0, off0, pos_before, cfg.to_real(), Vec::with_capacity(N + 1), Vec::with_capacity(2));
                    let e2 = r2.read_event();
                    let (st2, off2, _, _, _) = r2.verif_state();
                    match (&e1, &e2) {
                        (Ok(a), Ok(b)) => {
                            ensure!(kind_code(a) == kind_code(b), "C16: whitespace-only text trimmed to nothing is not emitted");
                            let ca: &[u8] = a;
                            let cb: &[u8] = b;
                            ensure!(ca.len() == cb.len(), "C16: event after a dropped text is unchanged (length)");
                            forall_idx!(j < ca.len() => {
                                ensure!(ca[j] == cb[j], "C16: event after a dropped text is unchanged");
                            });
                        }
                        (Err(a), Err(b)) => {
                            ensure!(same_error(a, b), "C16: error after a dropped text is unchanged");
                        }
                        _ => {
                            ensure!(false, "C16: whitespace-only text trimmed to nothing is not emitted");
                        }
                    }
                    ensure!(st1 == st2 && off1 == off2, "C16: position after a dropped text is that of the following construct");
                    witness!(true, "dropped text followed by markup");
                    core::mem::forget(e2);
                    core::mem::forget(r2);
                }
            }
            witness!(!dropped && (s > 0 || e < t.len()), "text actually trimmed");
        }
        Ok(Event::Empty(b0)) => {
            require!(mode != FINDING_ONLY);
            if cfg.expand_empty_elements {
                match &e1 {
                    Ok(Event::Start(b1)) => {
                        let c0: &[u8] = b0;
                        let c1: &[u8] = b1;
                        ensure!(c0.len() == c1.len(), "C16: expanded empty element starts with the same content (length)");
                        forall_idx!(j < c0.len() => {
                            ensure!(c0[j] == c1[j], "C16: expanded empty element starts with the same content");
                        });
                        let n0 = b0.name();
                        let n1 = b1.name();
                        ensure!(n0.as_ref().len() == n1.as_ref().len(), "C16: expanded empty element has the same name");
                        ensure!(off1 == off0, "C16: expansion does not alter positions");
                        // ... followed by an End of the same name, and then the reader is where the neutral one is
                        let end = r1.read_event();
                        match &end {
                            Ok(Event::End(e)) => {
                                let en: &[u8] = e;
                                ensure!(en.len() == n0.as_ref().len(), "C16: expanded empty element ends with the same name (length)");
                                forall_idx!(j < en.len() => {
                                    ensure!(en[j] == n0.as_ref()[j], "C16: expanded empty element ends with the same name");
                                });
                            }
                            _ => {
                                ensure!(false, "C16: an expanded empty element is a start event followed by an end event");
                            }
                        }
                        let (st1b, off1b, _, _, starts) = r1.verif_state();
                        ensure!(st1b == st0 && off1b == off0 && starts.len() == 0, "C16: after the expansion the reader is where the neutral one is");
                        witness!(true, "empty element expanded");
                        core::mem::forget(end);
                    }
                    _ => {
                        ensure!(false, "C16: an expanded empty element is a start event followed by an end event");
                    }
                }
            } else {
                match &e1 {
                    Ok(Event::Empty(b1)) => {
                        let c0: &[u8] = b0;
                        let c1: &[u8] = b1;
                        ensure!(c0.len() == c1.len() && b0.name().as_ref().len() == b1.name().as_ref().len(), "C16: no other option alters an empty element");
                    }
                    _ => {
                        ensure!(false, "C16: no other option alters an empty element");
                    }
                }
                ensure!(st1 == st0 && off1 == off0, "C16: no option alters the position after an empty element");
            }
        }
        Ok(Event::End(n0)) => {
            require!(mode != FINDING_ONLY);
            let n: &[u8] = n0;
            let mut e = n.len();
            if cfg.trim_markup_names_in_closing_tags {
                while e > 0 && is_ws(n[e - 1]) {
                    e -= 1;
                }
                if e == 0 {
                    e = n.len();
                }
            }
            match &e1 {
                Ok(Event::End(n1)) => {
                    let n1: &[u8] = n1;
                    ensure!(n1.len() == e, "C16: name trimming only removes whitespace after the name (length)");
                    forall_idx!(j < e => {
                        ensure!(n1[j] == n[j], "C16: name trimming only removes whitespace after the name");
                    });
                }
                _ => {
                    ensure!(false, "C16: no option turns an end tag into something else");
                }
            }
            ensure!(st1 == st0 && off1 == off0, "C16: no option alters the position after an end tag");
            witness!(e < n.len(), "end name actually trimmed");
        }
        Ok(Event::Comment(c0)) => {
            require!(mode != FINDING_ONLY);
            let c: &[u8] = c0;
            let mut bad = false;
            let mut j = 0;
            while j < P {
                if j + 1 < c.len() && c[j] == b'-' && c[j + 1] == b'-' {
                    bad = true;
                }
                j += 1;
            }
            // `--->`: the comment text ends with a hyphen
            if c.len() > 0 && c[c.len() - 1] == b'-' {
                bad = true;
            }
            if cfg.check_comments && bad {
                ensure!(
                    matches!(e1, Err(Error::IllFormed(IllFormedError::DoubleHyphenInComment))),
                    "C16: comment checking reports `--` inside a comment"
                );
                ensure!(st1 == st0 && off1 == off0, "C16: comment checking does not alter positions");
                witness!(true, "double hyphen reported");
            } else {
                match &e1 {
                    Ok(Event::Comment(c1)) => {
                        let c1: &[u8] = c1;
                        ensure!(c1.len() == c.len(), "C16: comment checking only adds an error for `--`");
                    }
                    _ => {
                        ensure!(false, "C16: comment checking only adds an error for `--`");
                    }
                }
                ensure!(st1 == st0 && off1 == off0, "C16: no option alters the position after a comment");
            }
        }
        Ok(ev0) => {
            require!(mode != FINDING_ONLY);
            // every other event: unchanged, as are positions
            match &e1 {
                Ok(ev1) => {
                    ensure!(kind_code(ev0) == kind_code(ev1), "C16: no option alters any other event (kind)");
                    let c0: &[u8] = ev0;
                    let c1: &[u8] = ev1;
                    ensure!(c0.len() == c1.len(), "C16: no option alters any other event (length)");
                    forall_idx!(j < c0.len() => {
                        ensure!(c0[j] == c1[j], "C16: no option alters any other event");
                    });
                }
                _ => {
                    ensure!(false, "C16: no option alters any other event (kind)");
                }
            }
            ensure!(st1 == st0 && off1 == off0, "C16: no option alters the position after any other event");
        }
        Err(err0) => {
            require!(mode != FINDING_ONLY);
            match &e1 {
                Err(err1) => {
                    ensure!(same_error(err0, err1), "C16: no option alters an error");
                }
                _ => {
                    ensure!(false, "C16: no option alters an error");
                }
            }
            ensure!(st1 == st0, "C16: no option alters the state after an error");
        }
    }
    core::mem::forget(e0);
    core::mem::forget(e1);
    core::mem::forget(r0);
    core::mem::forget(r1);
    Outcome::Pass
}

/// C16, reference side: the reference tokenizer under settings `cfg` is the DOCUMENTED transformation
/// of the reference tokenizer under neutral settings. (The real reader equals the reference under
/// every setting - decided by the step obligations - so this closes "relative to the neutral stream,
/// only the documented change".) Pure reference code: cheap, so N is larger.
/// raw: [len, state, cfg, bytes[N]]
pub fn check_ref_transform<const N: usize>(raw: &[u8]) -> Outcome {
    let mut r = Raw::new(raw);
    let len = r.u8() as usize;
    let st = r.u8();
    let cfg_bits = (r.u8() & 0x7a) | 0x01;
    let bytes: [u8; N] = r.arr();
    require!(len <= N);
    require!(st == ST_MARKUP || st == ST_TEXT || st == ST_INIT);
    let rest = &bytes[..len];
    let neutral = Cfg::from_bits(0x01);
    let cfg = Cfg::from_bits(cfg_bits);
    let top = Top { name: None };
    let a = ref_step(st, &neutral, rest, top);
    let b = ref_step(st, &cfg, rest, top);
    match a.out {
        Out::Event { kind: Kind::Text, start, len: tl, .. } => {
            let mut s = start;
            let mut e = start + tl;
            if cfg.trim_text_start {
                while s < e && is_ws(rest[s]) {
                    s += 1;
                }
            }
            if cfg.trim_text_end {
                while e > s && is_ws(rest[e - 1]) {
                    e -= 1;
                }
            }
            if s < e {
                ensure!(
                    b.out == Out::Event { kind: Kind::Text, start: s, len: e - s, name_len: 0 },
                    "C16: (reference) trimming removes exactly the leading/trailing XML whitespace"
                );
                ensure!(b.consumed == a.consumed && b.next_state == a.next_state, "C16: (reference) trimming does not move positions");
            } else if a.next_state == ST_DONE {
                ensure!(matches!(b.out, Out::Event { kind: Kind::Eof, .. }) && b.consumed == a.consumed, "C16: (reference) trimmed-away text at the end is dropped");
            } else {
                // dropped: this step yields what follows the text
                let c = ref_step(a.next_state, &cfg, &rest[a.consumed..], top);
                let shifted = match c.out {
                    Out::Event { kind, start, len, name_len } => Out::Event { kind, start: start + a.consumed, len, name_len },
                    Out::IllFormed { err, start, len } => Out::IllFormed { err, start: start + a.consumed, len },
                    o => o,
                };
                ensure!(b.out == shifted, "C16: (reference) a text event that becomes empty is dropped");
                ensure!(b.consumed == a.consumed + c.consumed && b.next_state == c.next_state, "C16: (reference) dropping a text does not move positions");
                witness!(true, "dropped text followed by markup");
            }
        }
        Out::Event { kind: Kind::Empty, start, len: cl, name_len } => {
            if cfg.expand_empty_elements {
                ensure!(b.out == Out::Event { kind: Kind::Start, start, len: cl, name_len }, "C16: (reference) an expanded empty element starts with the same content");
                ensure!(b.next_state == ST_EMPTY && b.consumed == a.consumed, "C16: (reference) expansion does not move positions");
                ensure!(b.stack == StackOp::Push { start, len: name_len }, "C16: (reference) the expanded element's name is remembered for its end");
                let d = ref_step(ST_EMPTY, &cfg, &rest[b.consumed..], Top { name: Some(&rest[start..start + name_len]) });
                ensure!(d.out == Out::EndOfExpanded && d.consumed == 0 && d.next_state == a.next_state, "C16: (reference) ... and ends right after");
            } else {
                ensure!(b == a, "C16: (reference) no other option alters an empty element");
            }
        }
        Out::Event { kind: Kind::End, start, len: nl, .. } => {
            let mut e = start + nl;
            if cfg.trim_markup_names_in_closing_tags {
                while e > start && is_ws(rest[e - 1]) {
                    e -= 1;
                }
                if e == start {
                    e = start + nl;
                }
            }
            ensure!(
                b.out == Out::Event { kind: Kind::End, start, len: e - start, name_len: e - start },
                "C16: (reference) name trimming only removes whitespace after the name"
            );
            ensure!(b.consumed == a.consumed && b.next_state == a.next_state, "C16: (reference) name trimming does not move positions");
        }
        Out::Event { kind: Kind::Comment, start, len: cl, .. } => {
            let mut bad = false;
            let mut j = 0;
            while j < N {
                if j + 1 < cl && rest[start + j] == b'-' && rest[start + j + 1] == b'-' {
                    bad = true;
                }
                j += 1;
            }
            if cl > 0 && rest[start + cl - 1] == b'-' {
                bad = true;
            }
            if cfg.check_comments && bad {
                ensure!(matches!(b.out, Out::IllFormed { err: Ill::DoubleHyphen, .. }), "C16: (reference) comment checking reports `--`");
                ensure!(b.consumed == a.consumed && b.next_state == a.next_state, "C16: (reference) comment checking does not move positions");
            } else {
                ensure!(b == a, "C16: (reference) comment checking only adds an error for `--`");
            }
        }
        _ => {
            let mut b2 = b;
            b2.empty_text_case = a.empty_text_case;
            ensure!(b2 == a, "C16: (reference) no option alters any other event, error or position");
        }
    }
    Outcome::Pass
}
