//! The harness table: every entry is a Kani proof (`cfg(kani)`) over a raw byte array of the given
//! length and an entry of the native replay registry.

use crate::common::Outcome;
use crate::props::scan::*;
use crate::props::step::*;
use crate::refmodel::tok::*;

macro_rules! harnesses {
    ($( $name:ident, unwind = $u:literal, raw = $k:literal, $f:expr; )*) => {
        $(
            #[cfg(kani)]
            #[kani::proof]
            #[kani::unwind($u)]
            fn $name() {
                let raw: [u8; $k] = kani::any();
                let f: fn(&[u8]) -> Outcome = $f;
                let _ = f(&raw);
            }
        )*
        /// name, raw length, check
        pub fn registry() -> Vec<(&'static str, usize, fn(&[u8]) -> Outcome)> {
            vec![ $( (stringify!($name), $k, $f as fn(&[u8]) -> Outcome), )* ]
        }
    };
}

const fn rg(state: u8, first: u8, prefix: &'static [u8], covers: u16) -> Region {
    Region { state, first, prefix, cfg_and: 0x7f, cfg_or: 0, ascii: false, covers }
}
/// C08 is stated for the settings under which nothing is trimmed, expanded, or rejected
/// (check_comments stays symbolic)
const fn rg8(state: u8, first: u8, prefix: &'static [u8], covers: u16) -> Region {
    Region { state, first, prefix, cfg_and: 0x03, cfg_or: 0x01, ascii: false, covers }
}
const fn rga(state: u8, first: u8, prefix: &'static [u8], covers: u16) -> Region {
    Region { state, first, prefix, cfg_and: 0x7f, cfg_or: 0, ascii: true, covers }
}
const BOM: &[u8] = &[0xEF, 0xBB, 0xBF];
const C0103: u32 = C01 | C03;

harnesses! {
    // ---- scanners (C01 K1-K4, C02 K) -----------------------------------------------------------
    k_elem_feed_n8, unwind = 10, raw = 10, |r| check_element_feed::<8>(r);
    k_elem_feed_n12, unwind = 14, raw = 14, |r| check_element_feed::<12>(r);
    k_pi_feed_n8, unwind = 10, raw = 10, |r| check_pi_feed::<8>(r);
    k_pi_feed_n12, unwind = 14, raw = 14, |r| check_pi_feed::<12>(r);
    k_bang_parse_n8, unwind = 10, raw = 10, |r| check_bang_parse::<8>(r);
    k_bang_parse_n12, unwind = 14, raw = 14, |r| check_bang_parse::<12>(r);
    k_name_len_n8, unwind = 10, raw = 9, |r| check_name_len::<8>(r);
    k_elem_split_n8, unwind = 10, raw = 11, |r| check_element_split::<8>(r);
    k_elem_split_n12, unwind = 14, raw = 15, |r| check_element_split::<12>(r);
    k_pi_split_n8, unwind = 10, raw = 11, |r| check_pi_split::<8>(r);
    k_pi_split_n12, unwind = 14, raw = 15, |r| check_pi_split::<12>(r);
    k_bang_split_n8, unwind = 10, raw = 11, |r| check_bang_split::<8>(r);
    k_bang_split_n12, unwind = 14, raw = 15, |r| check_bang_split::<12>(r);

    // deliberately false: the driver's self-test of the violation path (never in a property's plan)
    z_selftest_false, unwind = 10, raw = 10, |r| crate::props::scan::check_selftest_false::<8>(r);

    // ---- one reader step (slice source); raw = 7 + D + D*L + N; generics <N, P, D, L> ------------
    // C01 (+C03 clauses: same runs decide both; labels tell them apart)
    s1_tag_n4,      unwind = 6,  raw = 11, |r| check_step::<4, 4, 0, 0>(r, &rg(ST_MARKUP, 1, b"", CV_START | CV_EMPTY), C0103);
    s1_end_n4,      unwind = 6,  raw = 13, |r| check_step::<4, 4, 1, 1>(r, &rg(ST_MARKUP, b'/', b"", CV_END | CV_ILL), C0103);
    s1_pi_n4,       unwind = 6,  raw = 11, |r| check_step::<4, 4, 0, 0>(r, &rg(ST_MARKUP, b'?', b"", CV_PI), C0103);
    s1_decl_n3,     unwind = 9,  raw = 10, |r| check_step::<3, 7, 0, 0>(r, &rg(ST_MARKUP, 0, b"?xml", CV_DECL | CV_PI), C0103);
    s1_bang_n4,     unwind = 6,  raw = 11, |r| check_step::<4, 4, 0, 0>(r, &rg(ST_MARKUP, b'!', b"", CV_SYNTAX), C0103);
    s1_comment_n4,  unwind = 9,  raw = 11, |r| check_step::<4, 7, 0, 0>(r, &rg(ST_MARKUP, 0, b"!--", CV_COMMENT | CV_ILL), C0103);
    s1_cdata_n4,    unwind = 14, raw = 11, |r| check_step::<4, 12, 0, 0>(r, &rg(ST_MARKUP, 0, b"![CDATA[", CV_CDATA), C0103);
    s1_doctype_n4,  unwind = 14, raw = 11, |r| check_step::<4, 12, 0, 0>(r, &rg(ST_MARKUP, 0, b"!DOCTYPE", CV_DOCTYPE | CV_ILL), C0103);
    s1_doctypelc_n3, unwind = 13, raw = 10, |r| check_step::<3, 11, 0, 0>(r, &rg(ST_MARKUP, 0, b"!doctype", CV_DOCTYPE), C0103);
    s1_text_n4,     unwind = 6,  raw = 11, |r| check_step::<4, 4, 0, 0>(r, &rg(ST_TEXT, 0, b"", CV_TEXT | CV_EOF), C0103);
    s1_init_n4,     unwind = 6,  raw = 11, |r| check_step::<4, 4, 0, 0>(r, &rg(ST_INIT, 0, b"", CV_TEXT), C0103);
    s1_initbom_n3,  unwind = 8,  raw = 10, |r| check_step::<3, 6, 0, 0>(r, &rg(ST_INIT, 0, BOM, CV_TEXT | CV_START), C0103);
    s1_empty_n2,    unwind = 5,  raw = 12, |r| check_step::<2, 2, 1, 2>(r, &rg(ST_EMPTY, 0, b"", CV_END), C0103);
    s1_done_n2,     unwind = 4,  raw = 9,  |r| check_step::<2, 2, 0, 0>(r, &rg(ST_DONE, 0, b"", CV_EOF), C0103);
}
