//! The harness table: every entry is a Kani proof (`cfg(kani)`) over a raw byte array of the given
//! length and an entry of the native replay registry.

use crate::common::Outcome;
use crate::props::attr::*;
use crate::props::bufstep::*;
use crate::props::cfgdiff::*;
use crate::props::ctor::*;
use crate::props::esc::*;
use crate::props::ns::*;
use crate::props::scan::*;
use crate::props::step::*;
use crate::props::writer::*;
use crate::refmodel::tok::*;

/// Loop-free stand-in for `core::str::from_utf8` (used with `-Z stubbing` by the harnesses marked
/// `stub_utf8`): it ASSERTS, through a solver-chosen index, that every byte is 7-bit - where it is
/// exact - so it can never silently be used on input where it would be wrong.
#[cfg(kani)]
pub fn from_utf8_ascii(v: &[u8]) -> Result<&str, core::str::Utf8Error> {
    let i: usize = kani::any();
    if i < v.len() {
        assert!(v[i] < 0x80, "STUB: from_utf8 stub is only exact on 7-bit input");
    }
    Ok(unsafe { core::str::from_utf8_unchecked(v) })
}

#[cfg(kani)]
pub fn string_from_utf8_ascii(v: Vec<u8>) -> Result<String, std::string::FromUtf8Error> {
    let i: usize = kani::any();
    if i < v.len() {
        assert!(v[i] < 0x80, "STUB: String::from_utf8 stub is only exact on 7-bit input");
    }
    Ok(unsafe { String::from_utf8_unchecked(v) })
}

/// For the non-ASCII escaping obligations: escaping never re-validates text it did not change, and when a
/// (wrong) replacement happens the obligation already fails on "borrowed"; validation is skipped here.
#[cfg(kani)]
pub fn string_from_utf8_unchecked_stub(v: Vec<u8>) -> Result<String, std::string::FromUtf8Error> {
    Ok(unsafe { String::from_utf8_unchecked(v) })
}

macro_rules! harnesses {
    ($( $(#[$attr:meta])* $name:ident, unwind = $u:literal, raw = $k:literal, $f:expr; )*) => {
        $(
            #[cfg(kani)]
            #[kani::proof]
            #[kani::unwind($u)]
            $(#[$attr])*
            fn $name() {
                let raw: [u8; $k] = kani::any();
                let f: fn(&[u8]) -> Outcome = $f;
                let _ = f(&raw);
            }
        )*
        /// name, raw length, check
        pub fn registry() -> Vec<(&'static str, usize, fn(&[u8]) -> Outcome)> {
            vec![ $( (stringify!($name), $k, $f as fn(&[u8]) -> Outcome), )* ]
        }
    };
}

const fn rg(state: u8, first: u8, prefix: &'static [u8], covers: u16) -> Region {
    Region { state, first, prefix, cfg_and: 0x7f, cfg_or: 0, ascii: false, covers, fixed_len: 255, shape: 0xFFFF }
}
const fn rgl(state: u8, first: u8, prefix: &'static [u8], covers: u16, fixed_len: u8) -> Region {
    Region { state, first, prefix, cfg_and: 0x7f, cfg_or: 0, ascii: false, covers, fixed_len, shape: 0xFFFF }
}
/// C08 is stated for the settings under which nothing is trimmed, expanded, or rejected
/// (check_comments stays symbolic)
const fn rg8(state: u8, first: u8, prefix: &'static [u8], covers: u16) -> Region {
    Region { state, first, prefix, cfg_and: 0x03, cfg_or: 0x01, ascii: false, covers, fixed_len: 255, shape: 0xFFFF }
}
const fn rga(state: u8, first: u8, prefix: &'static [u8], covers: u16) -> Region {
    Region { state, first, prefix, cfg_and: 0x7f, cfg_or: 0, ascii: true, covers, fixed_len: 255, shape: 0xFFFF }
}
/// concrete stack shape (depth, len0, len1), ASCII, everything else symbolic
const fn rgs(state: u8, first: u8, covers: u16, depth: u16, l0: u16, l1: u16) -> Region {
    Region { state, first, prefix: b"", cfg_and: 0x7f, cfg_or: 0, ascii: true, covers, fixed_len: 255, shape: depth | (l0 << 2) | (l1 << 4) }
}
/// only the switches in `cfg_and` are symbolic, the others neutral
const fn rgc(state: u8, first: u8, prefix: &'static [u8], cfg_and: u8) -> Region {
    Region { state, first, prefix, cfg_and, cfg_or: 0, ascii: false, covers: 0, fixed_len: 255, shape: 0xFFFF }
}
const BOM: &[u8] = &[0xEF, 0xBB, 0xBF];
const C0103: u32 = C01 | C03;

harnesses! {
    // ---- scanners (C01 K1-K4, C02 K) -----------------------------------------------------------
    k_elem_feed_n8, unwind = 10, raw = 10, |r| check_element_feed::<8>(r);
    k_elem_feed_n12, unwind = 14, raw = 14, |r| check_element_feed::<12>(r);
    k_pi_feed_n8, unwind = 10, raw = 10, |r| check_pi_feed::<8>(r);
    k_pi_feed_n12, unwind = 14, raw = 14, |r| check_pi_feed::<12>(r);
    k_bang_parse_n8, unwind = 10, raw = 10, |r| check_bang_parse::<8>(r);
    k_bang_parse_n12, unwind = 14, raw = 14, |r| check_bang_parse::<12>(r);
    k_name_len_n8, unwind = 10, raw = 9, |r| check_name_len::<8>(r);
    k_elem_split_n8, unwind = 10, raw = 11, |r| check_element_split::<8>(r);
    k_elem_split_n12, unwind = 14, raw = 15, |r| check_element_split::<12>(r);
    k_pi_split_n8, unwind = 10, raw = 11, |r| check_pi_split::<8>(r);
    k_pi_split_n12, unwind = 14, raw = 15, |r| check_pi_split::<12>(r);
    k_bang_split_n8, unwind = 10, raw = 11, |r| check_bang_split::<8>(r);
    k_bang_split_n12, unwind = 14, raw = 15, |r| check_bang_split::<12>(r);

    // deliberately false: the driver's self-test of the violation path (never in a property's plan)
    z_selftest_false, unwind = 10, raw = 10, |r| crate::props::scan::check_selftest_false::<8>(r);

    // ---- event constructors on scanner output; raw = 7 + N; generics <N, N+1>
    e_cdata_n12,   unwind = 15, raw = 19, |r| check_emit::<12, 13>(r, 0, C0103);
    e_comment_n10, unwind = 13, raw = 17, |r| check_emit::<10, 11>(r, 1, C0103);
    e_doctype_n12, unwind = 15, raw = 19, |r| check_emit::<12, 13>(r, 2, C0103);
    e_pi_n8,       unwind = 11, raw = 15, |r| check_emit::<8, 9>(r, 3, C0103);
    e_end_n4,      unwind = 7,  raw = 11, |r| check_emit::<4, 5>(r, 4, C0103 | C04);
    e_end_n6,      unwind = 9,  raw = 13, |r| check_emit::<6, 7>(r, 4, C0103 | C04);
    e_start_n8,    unwind = 11, raw = 15, |r| check_emit::<8, 9>(r, 5, C0103);

    // ---- one reader step (slice source); raw = 7 + D + D*L + N; generics <N, P, D, L> ------------
    // C01 (+C03 clauses: same runs decide both; labels tell them apart)
    s1_tag_n4,      unwind = 6,  raw = 11, |r| check_step::<4, 4, 0, 0>(r, &rg(ST_MARKUP, 1, b"", CV_START | CV_EMPTY), C0103);
    s1_end_n4,      unwind = 6,  raw = 13, |r| check_step::<4, 4, 1, 1>(r, &rg(ST_MARKUP, b'/', b"", CV_END | CV_ILL), C0103);
    s1_pi_n4,       unwind = 6,  raw = 11, |r| check_step::<4, 4, 0, 0>(r, &rg(ST_MARKUP, b'?', b"", CV_PI), C0103);
    s1_decl_n3,     unwind = 9,  raw = 10, |r| check_step::<3, 7, 0, 0>(r, &rg(ST_MARKUP, 0, b"?xml", CV_DECL | CV_PI), C0103);
    s1_bang_n4,     unwind = 6,  raw = 11, |r| check_step::<4, 4, 0, 0>(r, &rg(ST_MARKUP, b'!', b"", CV_SYNTAX), C0103);
    s1_comment_n4,  unwind = 9,  raw = 11, |r| check_step::<4, 7, 0, 0>(r, &rg(ST_MARKUP, 0, b"!--", CV_COMMENT | CV_ILL), C0103);
    s1_cdata_n4,    unwind = 14, raw = 11, |r| check_step::<4, 12, 0, 0>(r, &rg(ST_MARKUP, 0, b"![CDATA[", CV_CDATA), C0103);
    s1_doctype_n4,  unwind = 14, raw = 11, |r| check_step::<4, 12, 0, 0>(r, &rg(ST_MARKUP, 0, b"!DOCTYPE", CV_DOCTYPE | CV_ILL), C0103);
    s1_doctypelc_n3, unwind = 13, raw = 10, |r| check_step::<3, 11, 0, 0>(r, &rg(ST_MARKUP, 0, b"!doctype", CV_DOCTYPE), C0103);
    s1_text_n4,     unwind = 6,  raw = 11, |r| check_step::<4, 4, 0, 0>(r, &rg(ST_TEXT, 0, b"", CV_TEXT | CV_EOF), C0103);
    s1_init_n4,     unwind = 6,  raw = 11, |r| check_step::<4, 4, 0, 0>(r, &rg(ST_INIT, 0, b"", CV_TEXT), C0103);
    s1_initbom_n3,  unwind = 8,  raw = 10, |r| check_step::<3, 6, 0, 0>(r, &rg(ST_INIT, 0, BOM, CV_TEXT | CV_START), C0103);
    s1_empty_n2,    unwind = 5,  raw = 12, |r| check_step::<2, 2, 1, 2>(r, &rg(ST_EMPTY, 0, b"", CV_END), C0103);
    s1_done_n2,     unwind = 4,  raw = 9,  |r| check_step::<2, 2, 0, 0>(r, &rg(ST_DONE, 0, b"", CV_EOF), C0103);

    // ---- C04: deeper stacks, ASCII names (error texts are compared); <N, P, D, L>, raw = 7 + D + D*L + N
    s4_end_d2_11_n4, unwind = 6, raw = 17, |r| check_step::<4, 4, 2, 2>(r, &rgs(ST_MARKUP, b'/', CV_END | CV_ILL, 2, 1, 1), C04);
    s4_end_d2_21_n4, unwind = 6, raw = 17, |r| check_step::<4, 4, 2, 2>(r, &rgs(ST_MARKUP, b'/', CV_END | CV_ILL, 2, 2, 1), C04);
    s4_end_d2_12_n4, unwind = 6, raw = 17, |r| check_step::<4, 4, 2, 2>(r, &rgs(ST_MARKUP, b'/', CV_END | CV_ILL, 2, 1, 2), C04);
    s4_end_d1_2_n4,  unwind = 6, raw = 17, |r| check_step::<4, 4, 2, 2>(r, &rgs(ST_MARKUP, b'/', CV_END | CV_ILL, 1, 2, 0), C04);
    s4_end_d2_22_n4, unwind = 6, raw = 17, |r| check_step::<4, 4, 2, 2>(r, &rgs(ST_MARKUP, b'/', CV_END | CV_ILL, 2, 2, 2), C04);
    s4_end_d1_1_n4,  unwind = 6, raw = 17, |r| check_step::<4, 4, 2, 2>(r, &rgs(ST_MARKUP, b'/', CV_END | CV_ILL, 1, 1, 0), C04);
    s4_tag_d2_22_n3, unwind = 5, raw = 16, |r| check_step::<3, 3, 2, 2>(r, &rgs(ST_MARKUP, 1, CV_START, 2, 2, 2), C04);
    s4_end_d0_n4,    unwind = 6, raw = 17, |r| check_step::<4, 4, 2, 2>(r, &rgs(ST_MARKUP, b'/', CV_END | CV_ILL, 0, 0, 0), C04);
    s4_tag_d2_12_n3, unwind = 5, raw = 16, |r| check_step::<3, 3, 2, 2>(r, &rgs(ST_MARKUP, 1, CV_START, 2, 1, 2), C04);
    s4_tag_d1_1_n3,  unwind = 5, raw = 16, |r| check_step::<3, 3, 2, 2>(r, &rgs(ST_MARKUP, 1, CV_START, 1, 1, 0), C04);
    s4_empty_d2_12,  unwind = 5, raw = 14, |r| check_step::<1, 1, 2, 2>(r, &rgs(ST_EMPTY, 0, CV_END, 2, 1, 2), C04);
    s4_empty_d1_2,   unwind = 5, raw = 14, |r| check_step::<1, 1, 2, 2>(r, &rgs(ST_EMPTY, 0, CV_END, 1, 2, 0), C04);

    // ---- C08: spans; settings fixed to "nothing trimmed/expanded/rejected"
    s8_tag_n4,      unwind = 6,  raw = 11, |r| check_step::<4, 4, 0, 0>(r, &rg8(ST_MARKUP, 1, b"", CV_START | CV_EMPTY), C08);
    s8_end_n4,      unwind = 6,  raw = 11, |r| check_step::<4, 4, 0, 0>(r, &rg8(ST_MARKUP, b'/', b"", CV_END), C08);
    s8_pi_n4,       unwind = 6,  raw = 11, |r| check_step::<4, 4, 0, 0>(r, &rg8(ST_MARKUP, b'?', b"", CV_PI), C08);
    s8_decl_n3,     unwind = 9,  raw = 10, |r| check_step::<3, 7, 0, 0>(r, &rg8(ST_MARKUP, 0, b"?xml", CV_DECL), C08);
    s8_comment_n4,  unwind = 9,  raw = 11, |r| check_step::<4, 7, 0, 0>(r, &rg8(ST_MARKUP, 0, b"!--", CV_COMMENT), C08);
    s8_text_n4,     unwind = 6,  raw = 11, |r| check_step::<4, 4, 0, 0>(r, &rg8(ST_TEXT, 0, b"", CV_TEXT | CV_EOF), C08);
    s8_init_n4,     unwind = 6,  raw = 11, |r| check_step::<4, 4, 0, 0>(r, &rg8(ST_INIT, 0, b"", CV_TEXT), C08);
    s8_initbom_n3,  unwind = 8,  raw = 10, |r| check_step::<3, 6, 0, 0>(r, &rg8(ST_INIT, 0, BOM, CV_TEXT | CV_EOF), C08);

    // ---- C05: namespace scopes
    n5_resolve_s0, unwind = 8, raw = 14, |r| check_ns_resolve(r, 0);
    n5_resolve_s1, unwind = 8, raw = 14, |r| check_ns_resolve(r, 1);
    n5_resolve_s2, unwind = 8, raw = 14, |r| check_ns_resolve(r, 2);
    n5_resolve_s3, unwind = 8, raw = 14, |r| check_ns_resolve(r, 3);
    n5_pop_s0, unwind = 8, raw = 11, |r| check_ns_pop_iter(r, 0, false, true);
    n5_iter_s0, unwind = 8, raw = 11, |r| check_ns_pop_iter(r, 0, true, false);
    n5_pop_s1, unwind = 8, raw = 11, |r| check_ns_pop_iter(r, 1, false, true);
    n5_iter_s1, unwind = 8, raw = 11, |r| check_ns_pop_iter(r, 1, true, false);
    n5_pop_s2, unwind = 8, raw = 11, |r| check_ns_pop_iter(r, 2, false, true);
    n5_iter_s2, unwind = 8, raw = 11, |r| check_ns_pop_iter(r, 2, true, false);
    n5_pop_s3, unwind = 8, raw = 11, |r| check_ns_pop_iter(r, 3, false, true);
    n5_iter_s3, unwind = 8, raw = 11, |r| check_ns_pop_iter(r, 3, true, false);
    n5_iter_s4, unwind = 8, raw = 11, |r| check_ns_pop_iter(r, 4, true, false);
    n5_iter_s5, unwind = 8, raw = 11, |r| check_ns_pop_iter(r, 5, true, false);
    n5_resolve_s4, unwind = 8, raw = 14, |r| check_ns_resolve(r, 4);
    n5_iter1_s0, unwind = 8, raw = 11, |r| check_ns_iter_k(r, 0, 1);
    n5_iter1_s4, unwind = 8, raw = 11, |r| check_ns_iter_k(r, 4, 1);
    n5_iter1_s5, unwind = 8, raw = 11, |r| check_ns_iter_k(r, 5, 1);
    n5_iter2_s2, unwind = 8, raw = 11, |r| check_ns_iter_k(r, 2, 2);
    n5_iter2_s4, unwind = 8, raw = 11, |r| check_ns_iter_k(r, 4, 2);
    n5_push_t0,    unwind = 16, raw = 2, |r| check_ns_push(r, 0);
    n5_push_t1,    unwind = 14, raw = 2, |r| check_ns_push(r, 1);
    n5_push_t2,    unwind = 15, raw = 2, |r| check_ns_push(r, 2);
    n5_push_t3,    unwind = 10, raw = 2, |r| check_ns_push(r, 3);
    n5_depth_event_n3,    unwind = 6, raw = 6, |r| check_ns_depth::<3>(r, 0);
    n5_depth_resolved_n3, unwind = 6, raw = 6, |r| check_ns_depth::<3>(r, 1);
    n5_depth_toend_n4,    unwind = 7, raw = 7, |r| check_ns_depth::<4>(r, 2);
    n5_depth_text_n4,     unwind = 7, raw = 7, |r| check_ns_depth::<4>(r, 3);

    #[kani::stub(core::str::from_utf8, from_utf8_ascii)]
    n5_skip_toend_0, unwind = 6, raw = 1, |r| check_ns_skip_shape(r, 2, false);
    #[kani::stub(core::str::from_utf8, from_utf8_ascii)]
    n5_skip_toend_1, unwind = 7, raw = 1, |r| check_ns_skip_shape(r, 2, true);
    #[kani::stub(core::str::from_utf8, from_utf8_ascii)]
    n5_skip_text_1,  unwind = 7, raw = 1, |r| check_ns_skip_shape(r, 3, true);

    // ---- C19 / C08 / C09: writer
    w19_start, unwind = 4, raw = 7, |r| check_indent_step(r, 0, false);
    w19_end, unwind = 4, raw = 7, |r| check_indent_step(r, 1, false);
    w19_empty, unwind = 4, raw = 7, |r| check_indent_step(r, 2, false);
    w19_text, unwind = 4, raw = 7, |r| check_indent_step(r, 3, false);
    w19_comment, unwind = 4, raw = 7, |r| check_indent_step(r, 4, false);
    w19_cdata, unwind = 4, raw = 7, |r| check_indent_step(r, 5, false);
    w19_decl, unwind = 4, raw = 7, |r| check_indent_step(r, 6, false);
    w19_pi, unwind = 4, raw = 7, |r| check_indent_step(r, 7, false);
    w19_doctype, unwind = 4, raw = 7, |r| check_indent_step(r, 8, false);
    w19_eof, unwind = 4, raw = 7, |r| check_indent_step(r, 9, false);
    w19_start_grow, unwind = 14, raw = 7, |r| check_indent_step(r, 0, true);
    w19_end_grow, unwind = 14, raw = 7, |r| check_indent_step(r, 1, true);
    w19_comment_grow, unwind = 14, raw = 7, |r| check_indent_step(r, 4, true);
    w19_two_starts_c124, unwind = 14, raw = 7, |r| check_indent_two_starts(r, 124);
    w19_two_starts_c128, unwind = 14, raw = 7, |r| check_indent_two_starts(r, 128);
    w19_two_starts_c110, unwind = 14, raw = 7, |r| check_indent_two_starts(r, 110);
    w19_two_starts_c119, unwind = 14, raw = 7, |r| check_indent_two_starts(r, 119);
    w19_two_starts_c120, unwind = 14, raw = 7, |r| check_indent_two_starts(r, 120);
    w19_two_starts_c127, unwind = 14, raw = 7, |r| check_indent_two_starts(r, 127);
    w8_start_n3, unwind = 6, raw = 4, |r| check_writer_table::<3>(r, 0);
    w8_end_n3, unwind = 6, raw = 4, |r| check_writer_table::<3>(r, 1);
    w8_empty_n3, unwind = 6, raw = 4, |r| check_writer_table::<3>(r, 2);
    w8_text_n3, unwind = 6, raw = 4, |r| check_writer_table::<3>(r, 3);
    w8_comment_n3, unwind = 6, raw = 4, |r| check_writer_table::<3>(r, 4);
    w8_cdata_n3, unwind = 6, raw = 4, |r| check_writer_table::<3>(r, 5);
    w8_decl_n3, unwind = 6, raw = 4, |r| check_writer_table::<3>(r, 6);
    w8_pi_n3, unwind = 6, raw = 4, |r| check_writer_table::<3>(r, 7);
    w8_doctype_n3, unwind = 6, raw = 4, |r| check_writer_table::<3>(r, 8);
    w8_eof_n3, unwind = 6, raw = 4, |r| check_writer_table::<3>(r, 9);
    w8_start_n6, unwind = 9, raw = 7, |r| check_writer_table::<6>(r, 0);
    w8_end_n6, unwind = 9, raw = 7, |r| check_writer_table::<6>(r, 1);
    w8_empty_n6, unwind = 9, raw = 7, |r| check_writer_table::<6>(r, 2);
    w8_text_n6, unwind = 9, raw = 7, |r| check_writer_table::<6>(r, 3);
    w8_comment_n6, unwind = 9, raw = 7, |r| check_writer_table::<6>(r, 4);
    w8_cdata_n6, unwind = 9, raw = 7, |r| check_writer_table::<6>(r, 5);
    w8_decl_n6, unwind = 9, raw = 7, |r| check_writer_table::<6>(r, 6);
    w8_pi_n6, unwind = 9, raw = 7, |r| check_writer_table::<6>(r, 7);
    w8_doctype_n6, unwind = 9, raw = 7, |r| check_writer_table::<6>(r, 8);
    w8_eof_n6, unwind = 9, raw = 7, |r| check_writer_table::<6>(r, 9);

    // ---- C09: constructor kernels
    c9_cdata_split_n5, unwind = 8, raw = 6, |r| check_cdata_split::<5>(r);
    c9_cdata_split_n6, unwind = 9, raw = 7, |r| check_cdata_split::<6>(r);
    #[kani::stub(core::str::from_utf8, from_utf8_ascii)]
    #[kani::stub(alloc::string::String::from_utf8, string_from_utf8_ascii)]
    c9_push_attribute, unwind = 12, raw = 3, |r| check_push_attribute(r);
    c9_set_name,       unwind = 10, raw = 5, |r| check_set_name(r);
    c9_decl_new,       unwind = 16, raw = 4, |r| check_decl_new(r);
    #[kani::stub(core::str::from_utf8, from_utf8_ascii)]
    #[kani::stub(alloc::string::String::from_utf8, string_from_utf8_ascii)]
    c9_text_new,       unwind = 12, raw = 1, |r| check_text_new(r);

    // ---- C10: escaping kernels
    x10_parse_number, unwind = 13, raw = 11, |r| check_parse_number(r);
    #[kani::stub(core::str::from_utf8, from_utf8_ascii)]
    #[kani::stub(alloc::string::String::from_utf8, string_from_utf8_ascii)]
    x10_unescape_n3,  unwind = 6,  raw = 4,  |r| check_unescape::<3>(r);
    #[kani::stub(core::str::from_utf8, from_utf8_ascii)]
    #[kani::stub(alloc::string::String::from_utf8, string_from_utf8_ascii)]
    x10_unescape_n4,  unwind = 7,  raw = 5,  |r| check_unescape::<4>(r);
    #[kani::stub(core::str::from_utf8, from_utf8_ascii)]
    #[kani::stub(alloc::string::String::from_utf8, string_from_utf8_ascii)]
    x10_unesc_s1a,    unwind = 8,  raw = 4,  |r| check_unescape_shape(r, b"&?t;");
    #[kani::stub(core::str::from_utf8, from_utf8_ascii)]
    #[kani::stub(alloc::string::String::from_utf8, string_from_utf8_ascii)]
    x10_unesc_s1b,    unwind = 8,  raw = 4,  |r| check_unescape_shape(r, b"&l?;");
    #[kani::stub(core::str::from_utf8, from_utf8_ascii)]
    #[kani::stub(alloc::string::String::from_utf8, string_from_utf8_ascii)]
    x10_unesc_n1,     unwind = 8,  raw = 4,  |r| check_unescape_shape(r, b"&#?;");
    #[kani::stub(core::str::from_utf8, from_utf8_ascii)]
    #[kani::stub(alloc::string::String::from_utf8, string_from_utf8_ascii)]
    x10_unesc_h1,     unwind = 9,  raw = 4,  |r| check_unescape_shape(r, b"&#x?;");
    #[kani::stub(core::str::from_utf8, from_utf8_ascii)]
    #[kani::stub(alloc::string::String::from_utf8, string_from_utf8_ascii)]
    x10_unesc_s2,     unwind = 8,  raw = 4,  |r| check_unescape_shape(r, b"&??;");
    #[kani::stub(core::str::from_utf8, from_utf8_ascii)]
    #[kani::stub(alloc::string::String::from_utf8, string_from_utf8_ascii)]
    x10_unesc_s3,     unwind = 9,  raw = 4,  |r| check_unescape_shape(r, b"&???;");
    #[kani::stub(core::str::from_utf8, from_utf8_ascii)]
    #[kani::stub(alloc::string::String::from_utf8, string_from_utf8_ascii)]
    x10_unesc_s4,     unwind = 10, raw = 4,  |r| check_unescape_shape(r, b"&????;");
    #[kani::stub(core::str::from_utf8, from_utf8_ascii)]
    #[kani::stub(alloc::string::String::from_utf8, string_from_utf8_ascii)]
    x10_unesc_num,    unwind = 9,  raw = 4,  |r| check_unescape_shape(r, b"&#??;");
    #[kani::stub(core::str::from_utf8, from_utf8_ascii)]
    #[kani::stub(alloc::string::String::from_utf8, string_from_utf8_ascii)]
    x10_unesc_hex,    unwind = 10, raw = 4,  |r| check_unescape_shape(r, b"&#x??;");
    #[kani::stub(core::str::from_utf8, from_utf8_ascii)]
    #[kani::stub(alloc::string::String::from_utf8, string_from_utf8_ascii)]
    x10_unesc_two,    unwind = 10, raw = 4,  |r| check_unescape_shape(r, b"?&lt;?&");
    #[kani::stub(core::str::from_utf8, from_utf8_ascii)]
    #[kani::stub(alloc::string::String::from_utf8, string_from_utf8_ascii)]
    x10_esc_full_1,   unwind = 12,  raw = 1,  |r| check_escape1(r, 0, b"x", 0);
    #[kani::stub(core::str::from_utf8, from_utf8_ascii)]
    #[kani::stub(alloc::string::String::from_utf8, string_from_utf8_ascii)]
    x10_esc_part_1,   unwind = 12,  raw = 1,  |r| check_escape1(r, 1, b"x", 0);
    #[kani::stub(core::str::from_utf8, from_utf8_ascii)]
    #[kani::stub(alloc::string::String::from_utf8, string_from_utf8_ascii)]
    x10_esc_min_1,    unwind = 12,  raw = 1,  |r| check_escape1(r, 2, b"x", 0);
    #[kani::stub(core::str::from_utf8, from_utf8_ascii)]
    #[kani::stub(alloc::string::String::from_utf8, string_from_utf8_ascii)]
    x10_esc_full_mid, unwind = 16, raw = 1,  |r| check_escape1(r, 0, b"<x>", 1);
    #[kani::stub(core::str::from_utf8, from_utf8_ascii)]
    #[kani::stub(alloc::string::String::from_utf8, string_from_utf8_ascii)]
    x10_esc_full_end, unwind = 16, raw = 1,  |r| check_escape1(r, 0, b"a&x", 2);
    #[kani::stub(core::str::from_utf8, from_utf8_ascii)]
    #[kani::stub(alloc::string::String::from_utf8, string_from_utf8_ascii)]
    x10_esc_part_mid, unwind = 16, raw = 1,  |r| check_escape1(r, 1, b"\"x'", 1);
    #[kani::stub(core::str::from_utf8, from_utf8_ascii)]
    #[kani::stub(alloc::string::String::from_utf8, string_from_utf8_ascii)]
    x10_esc_min_mid,  unwind = 16, raw = 1,  |r| check_escape1(r, 2, b">x<", 1);
    #[kani::stub(alloc::string::String::from_utf8, string_from_utf8_unchecked_stub)]
    x10_esc_full_u2, unwind = 5, raw = 2, |r| check_escape_u2(r, 0);
    #[kani::stub(alloc::string::String::from_utf8, string_from_utf8_unchecked_stub)]
    x10_esc_min_u2,  unwind = 5, raw = 2, |r| check_escape_u2(r, 2);
    #[kani::stub(core::str::from_utf8, from_utf8_ascii)]
    #[kani::stub(alloc::string::String::from_utf8, string_from_utf8_ascii)]
    x10_inv_lt,   unwind = 12, raw = 1, |r| check_unescape_entity(r, 0);
    #[kani::stub(core::str::from_utf8, from_utf8_ascii)]
    #[kani::stub(alloc::string::String::from_utf8, string_from_utf8_ascii)]
    x10_inv_gt,   unwind = 12, raw = 1, |r| check_unescape_entity(r, 1);
    #[kani::stub(core::str::from_utf8, from_utf8_ascii)]
    #[kani::stub(alloc::string::String::from_utf8, string_from_utf8_ascii)]
    x10_inv_amp,  unwind = 12, raw = 1, |r| check_unescape_entity(r, 2);
    #[kani::stub(core::str::from_utf8, from_utf8_ascii)]
    #[kani::stub(alloc::string::String::from_utf8, string_from_utf8_ascii)]
    x10_inv_apos, unwind = 12, raw = 1, |r| check_unescape_entity(r, 3);
    #[kani::stub(core::str::from_utf8, from_utf8_ascii)]
    #[kani::stub(alloc::string::String::from_utf8, string_from_utf8_ascii)]
    x10_inv_quot, unwind = 12, raw = 1, |r| check_unescape_entity(r, 4);
    #[kani::stub(core::str::from_utf8, from_utf8_ascii)]
    #[kani::stub(alloc::string::String::from_utf8, string_from_utf8_ascii)]
    x10_inv_mixed, unwind = 20, raw = 1, |r| check_unescape_entity(r, 5);

    // ---- C11: one Attributes::next() from an arbitrary iterator state; raw = 5 + 2*K + N
    a11_next_n5,      unwind = 8,  raw = 14, |r| check_attr_step::<5>(r, 1);
    a11_skipvalue_n5, unwind = 8,  raw = 14, |r| check_attr_step::<5>(r, 2);
    a11_skipeq_n8,    unwind = 11, raw = 17, |r| check_attr_step::<8>(r, 3);
    a11_skipeq_canon_n8, unwind = 11, raw = 17, |r| check_attr_step::<8>(r, 4);
    a11_skipvalue_canon_n5, unwind = 8, raw = 14, |r| check_attr_step::<5>(r, 5);
    a11_skipvalue_canon_n6, unwind = 9, raw = 15, |r| check_attr_step::<6>(r, 5);
    a11_done_n3,      unwind = 6,  raw = 12, |r| check_attr_step::<3>(r, 0);
    a11_next_n7,      unwind = 10, raw = 16, |r| check_attr_step::<7>(r, 1);

    // ---- C16: neutral settings vs solver-chosen settings, both real; raw = 5 + N; generics <N, P>
    r16_transform_n5, unwind = 8, raw = 8, |r| check_ref_transform::<5>(r);
    r16_transform_n6, unwind = 9, raw = 9, |r| check_ref_transform::<6>(r);
    s16_text_finding_n4, unwind = 6, raw = 11, |r| check_step::<4, 4, 0, 0>(r, &rgc(ST_TEXT, 0, b"", 0x60), C16_FINDING_ONLY);
    d16_text_n3,     unwind = 5,  raw = 8, |r| check_cfgdiff::<3, 3>(r, &rgc(ST_TEXT, 0, b"", 0x60), 0);
    d16_text_finding_n3, unwind = 5, raw = 8, |r| check_cfgdiff::<3, 3>(r, &rgc(ST_TEXT, 0, b"", 0x60), FINDING_ONLY);
    d16_init_n3,     unwind = 5,  raw = 8, |r| check_cfgdiff::<3, 3>(r, &rgc(ST_INIT, 0, b"", 0x60), 0);
    d16_tag_n3,      unwind = 5,  raw = 8, |r| check_cfgdiff::<3, 3>(r, &rgc(ST_MARKUP, 1, b"", 0x08), 0);
    d16_end_n3,      unwind = 5,  raw = 8, |r| check_cfgdiff::<3, 3>(r, &rgc(ST_MARKUP, b'/', b"", 0x10), 0);
    d16_pi_n3,       unwind = 5,  raw = 8, |r| check_cfgdiff::<3, 3>(r, &rgc(ST_MARKUP, b'?', b"", 0x7a), 0);
    d16_comment_n3,  unwind = 8,  raw = 8, |r| check_cfgdiff::<3, 6>(r, &rgc(ST_MARKUP, 0, b"!--", 0x02), 0);
    d16_text_n4,     unwind = 6,  raw = 9, |r| check_cfgdiff::<4, 4>(r, &rgc(ST_TEXT, 0, b"", 0x60), 0);
    d16_tag_all_n3,  unwind = 5,  raw = 8, |r| check_cfgdiff::<3, 3>(r, &rgc(ST_MARKUP, 1, b"", 0x7a), 0);
    d16_end_all_n3,  unwind = 5,  raw = 8, |r| check_cfgdiff::<3, 3>(r, &rgc(ST_MARKUP, b'/', b"", 0x7a), 0);
    d16_text_all_n3, unwind = 5,  raw = 8, |r| check_cfgdiff::<3, 3>(r, &rgc(ST_TEXT, 0, b"", 0x7a), 0);

    // ---- one XmlSource helper: buffered (chunked / faulty source) vs slice; raw = 1 + K + F + N
    h2_text_n5,  unwind = 8, raw = 7,  |r| check_helper::<5, 1, 0>(r, 0, C02, 0);
    h2_text_n8k2, unwind = 11, raw = 11, |r| check_helper::<8, 2, 0>(r, 0, C02, 0);
    h18_text_n4, unwind = 10, raw = 9,  |r| check_helper::<4, 1, 3>(r, 0, C02 | C18, 0);
    h2_elem_n5,  unwind = 8, raw = 7,  |r| check_helper::<5, 1, 0>(r, 1, C02, 0);
    h2_elem_n8k2, unwind = 11, raw = 11, |r| check_helper::<8, 2, 0>(r, 1, C02, 0);
    h18_elem_n4, unwind = 10, raw = 9,  |r| check_helper::<4, 1, 3>(r, 1, C02 | C18, 0);
    h2_pi_n5,  unwind = 8, raw = 7,  |r| check_helper::<5, 1, 0>(r, 2, C02, 0);
    h2_pi_n8k2, unwind = 11, raw = 11, |r| check_helper::<8, 2, 0>(r, 2, C02, 0);
    h18_pi_n4, unwind = 10, raw = 9,  |r| check_helper::<4, 1, 3>(r, 2, C02 | C18, 0);
    h2_bang_n5,  unwind = 8, raw = 7,  |r| check_helper::<5, 1, 0>(r, 3, C02, 33);
    h2_bang_n8k2, unwind = 11, raw = 11, |r| check_helper::<8, 2, 0>(r, 3, C02, 33);
    h18_bang_n4, unwind = 10, raw = 9,  |r| check_helper::<4, 1, 3>(r, 3, C02 | C18, 33);
    h2_skipws_n5,  unwind = 8, raw = 7,  |r| check_helper::<5, 1, 0>(r, 4, C02, 0);
    h2_skipws_n8k2, unwind = 11, raw = 11, |r| check_helper::<8, 2, 0>(r, 4, C02, 0);
    h18_skipws_n4, unwind = 10, raw = 9,  |r| check_helper::<4, 1, 3>(r, 4, C02 | C18, 0);
    h2_peek_n5,  unwind = 8, raw = 7,  |r| check_helper::<5, 1, 0>(r, 5, C02, 0);
    h2_peek_n8k2, unwind = 11, raw = 11, |r| check_helper::<8, 2, 0>(r, 5, C02, 0);
    h18_peek_n4, unwind = 10, raw = 9,  |r| check_helper::<4, 1, 3>(r, 5, C02 | C18, 0);
    h2_bom_n5,  unwind = 8, raw = 7,  |r| check_helper::<5, 1, 0>(r, 6, C02, 0);
    h2_bom_n8k2, unwind = 11, raw = 11, |r| check_helper::<8, 2, 0>(r, 6, C02, 0);
    h18_bom_n4, unwind = 10, raw = 9,  |r| check_helper::<4, 1, 3>(r, 6, C02 | C18, 0);
    h2_text_n4,  unwind = 7, raw = 6,  |r| check_helper::<4, 1, 0>(r, 0, C02, 0);
    h18_text_n3, unwind = 9, raw = 8,  |r| check_helper::<3, 1, 3>(r, 0, C02 | C18, 0);
    h2_elem_n4,  unwind = 7, raw = 6,  |r| check_helper::<4, 1, 0>(r, 1, C02, 0);
    h18_elem_n3, unwind = 9, raw = 8,  |r| check_helper::<3, 1, 3>(r, 1, C02 | C18, 0);
    h2_pi_n4,  unwind = 7, raw = 6,  |r| check_helper::<4, 1, 0>(r, 2, C02, 0);
    h18_pi_n3, unwind = 9, raw = 8,  |r| check_helper::<3, 1, 3>(r, 2, C02 | C18, 0);
    h2_bang_n4,  unwind = 7, raw = 6,  |r| check_helper::<4, 1, 0>(r, 3, C02, 33);
    h2_bang_n3,  unwind = 6, raw = 5,  |r| check_helper::<3, 1, 0>(r, 3, C02, 33);
    h2_bang_n2,  unwind = 5, raw = 4,  |r| check_helper::<2, 1, 0>(r, 3, C02, 33);
    h18_bang_n2, unwind = 8, raw = 7,  |r| check_helper::<2, 1, 3>(r, 3, C02 | C18, 33);
    h2_bangc_n4,  unwind = 7, raw = 6, |r| check_helper::<4, 1, 0>(r, 3, C02, 0xFE);
    h18_bangc_n3, unwind = 8, raw = 7, |r| check_helper::<3, 1, 2>(r, 3, C02 | C18, 0xFE);
    h18_bangd_n3, unwind = 8, raw = 7, |r| check_helper::<3, 1, 2>(r, 3, C02 | C18, 0xFD);
    h18_elem_n2, unwind = 8, raw = 7,  |r| check_helper::<2, 1, 3>(r, 1, C02 | C18, 0);
    h18_pi_n2,   unwind = 8, raw = 7,  |r| check_helper::<2, 1, 3>(r, 2, C02 | C18, 0);
    h18_text_n2, unwind = 8, raw = 7,  |r| check_helper::<2, 1, 3>(r, 0, C02 | C18, 0);
    h18_elem_n3f2, unwind = 8, raw = 7, |r| check_helper::<3, 1, 2>(r, 1, C02 | C18, 0);
    h18_pi_n3f2,   unwind = 8, raw = 7, |r| check_helper::<3, 1, 2>(r, 2, C02 | C18, 0);
    h18_text_n3f2, unwind = 8, raw = 7, |r| check_helper::<3, 1, 2>(r, 0, C02 | C18, 0);
    h2_elem_n3,  unwind = 6, raw = 5,  |r| check_helper::<3, 1, 0>(r, 1, C02, 0);
    h2_elem_n3k2, unwind = 7, raw = 6, |r| check_helper::<3, 2, 0>(r, 1, C02, 0);
    h2_text_n3k2, unwind = 7, raw = 6, |r| check_helper::<3, 2, 0>(r, 0, C02, 0);
    h2_pi_n3,    unwind = 6, raw = 5,  |r| check_helper::<3, 1, 0>(r, 2, C02, 0);
    h2_text_n3,  unwind = 6, raw = 5,  |r| check_helper::<3, 1, 0>(r, 0, C02, 0);
    k_bang_split_n7, unwind = 9, raw = 10, |r| check_bang_split::<7>(r);
    #[kani::stub(alloc::string::String::from_utf8, string_from_utf8_unchecked_stub)]
    x10_esc_full_c4, unwind = 4, raw = 1, |r| check_escape_lead(r, 0, false);
    #[kani::stub(alloc::string::String::from_utf8, string_from_utf8_unchecked_stub)]
    x10_esc_full_e280, unwind = 5, raw = 1, |r| check_escape_lead(r, 0, true);
    #[kani::stub(alloc::string::String::from_utf8, string_from_utf8_unchecked_stub)]
    x10_esc_min_c4, unwind = 4, raw = 1, |r| check_escape_lead(r, 2, false);
    #[kani::stub(core::str::from_utf8, from_utf8_ascii)]
    #[kani::stub(alloc::string::String::from_utf8, string_from_utf8_ascii)]
    x10_unescape_n2, unwind = 5, raw = 3, |r| check_unescape::<2>(r);
    h18_bang_n3, unwind = 9, raw = 8,  |r| check_helper::<3, 1, 3>(r, 3, C02 | C18, 33);
    h2_skipws_n4,  unwind = 7, raw = 6,  |r| check_helper::<4, 1, 0>(r, 4, C02, 0);
    h18_skipws_n3, unwind = 9, raw = 8,  |r| check_helper::<3, 1, 3>(r, 4, C02 | C18, 0);
    h2_peek_n4,  unwind = 7, raw = 6,  |r| check_helper::<4, 1, 0>(r, 5, C02, 0);
    h18_peek_n3, unwind = 9, raw = 8,  |r| check_helper::<3, 1, 3>(r, 5, C02 | C18, 0);
    h2_bom_n4,  unwind = 7, raw = 6,  |r| check_helper::<4, 1, 0>(r, 6, C02, 0);
    h18_bom_n3, unwind = 9, raw = 8,  |r| check_helper::<3, 1, 3>(r, 6, C02 | C18, 0);

    // ---- buffered step vs slice step; raw = 7 + K + F + N; generics <N, P, K cuts, F scheduled refills>
    b2_text_n3,     unwind = 6,  raw = 11, |r| check_bufstep::<3, 3, 1, 0>(r, &rg(ST_TEXT, 0, b"", 0), C02);
    b2_text_n2,     unwind = 5,  raw = 10, |r| check_bufstep::<2, 2, 1, 0>(r, &rg(ST_TEXT, 0, b"", 0), C02);
    b2_tag_n3,      unwind = 6,  raw = 11, |r| check_bufstep::<3, 3, 1, 0>(r, &rg(ST_MARKUP, 1, b"", 0), C02);
    b2_tag_n4,      unwind = 7,  raw = 12, |r| check_bufstep::<4, 4, 1, 0>(r, &rg(ST_MARKUP, 1, b"", 0), C02);
    b2_end_n4,      unwind = 7,  raw = 12, |r| check_bufstep::<4, 4, 1, 0>(r, &rg(ST_MARKUP, b'/', b"", 0), C02);
    b2_pi_n4,       unwind = 7,  raw = 12, |r| check_bufstep::<4, 4, 1, 0>(r, &rg(ST_MARKUP, b'?', b"", 0), C02);
    b2_bang_n4,     unwind = 7,  raw = 12, |r| check_bufstep::<4, 4, 1, 0>(r, &rg(ST_MARKUP, b'!', b"", 0), C02);
    b2_comment_n4,  unwind = 10, raw = 12, |r| check_bufstep::<4, 7, 1, 0>(r, &rg(ST_MARKUP, 0, b"!--", 0), C02);
    b2_cdata_n4,    unwind = 15, raw = 12, |r| check_bufstep::<4, 12, 1, 0>(r, &rg(ST_MARKUP, 0, b"![CDATA[", 0), C02);
    b2_doctype_n4,  unwind = 15, raw = 12, |r| check_bufstep::<4, 12, 1, 0>(r, &rg(ST_MARKUP, 0, b"!DOCTYPE", 0), C02);
    b2_text_n4,     unwind = 7,  raw = 12, |r| check_bufstep::<4, 4, 1, 0>(r, &rg(ST_TEXT, 0, b"", 0), C02);
    b2_init_n4,     unwind = 7,  raw = 12, |r| check_bufstep::<4, 4, 1, 0>(r, &rg(ST_INIT, 0, b"", 0), C02);
    b2_initbom_n3,  unwind = 9,  raw = 11, |r| check_bufstep::<3, 6, 1, 0>(r, &rg(ST_INIT, 0, BOM, 0), C02);
    // C18: the same with a fault schedule for the first 3 refills (raw = 7 + K + F + N)
    b18_tag_n3,     unwind = 9,  raw = 14, |r| check_bufstep::<3, 3, 1, 3>(r, &rg(ST_MARKUP, 1, b"", 0), C02 | C18);
    b18_bang_n3,    unwind = 9,  raw = 14, |r| check_bufstep::<3, 3, 1, 3>(r, &rg(ST_MARKUP, b'!', b"", 0), C02 | C18);
    b18_comment_n3, unwind = 12, raw = 14, |r| check_bufstep::<3, 6, 1, 3>(r, &rg(ST_MARKUP, 0, b"!--", 0), C02 | C18);
    b18_text_n3,    unwind = 9,  raw = 14, |r| check_bufstep::<3, 3, 1, 3>(r, &rg(ST_TEXT, 0, b"", 0), C02 | C18);
    b18_init_n3,    unwind = 9,  raw = 14, |r| check_bufstep::<3, 3, 1, 3>(r, &rg(ST_INIT, 0, b"", 0), C02 | C18);
}

#[cfg(kani)]
#[kani::proof]
#[kani::unwind(6)]
fn zz_split_off_probe() {
    let a: u8 = kani::any();
    let b: u8 = kani::any();
    let c: u8 = kani::any();
    let mut v: Vec<u8> = Vec::with_capacity(9);
    v.push(a);
    v.push(b);
    v.push(c);
    let t = v.split_off(1);
    assert!(t.len() == 2);
    assert!(t[0] == b);
    assert!(t[1] == c);
    let cow: std::borrow::Cow<[u8]> = t.into();
    let e = quick_xml::events::BytesEnd::new("x");
    let s: &[u8] = &cow;
    assert!(s[1] == c);
    core::mem::forget(e);
}

#[cfg(kani)]
#[kani::proof]
#[kani::unwind(6)]
fn zz_empty_probe() {
    let n0: [u8; 2] = kani::any();
    let n1: [u8; 2] = kani::any();
    let mut ob: Vec<u8> = Vec::with_capacity(9);
    let mut os: Vec<usize> = Vec::with_capacity(4);
    os.push(ob.len());
    ob.push(n0[0]);
    os.push(ob.len());
    ob.push(n1[0]);
    ob.push(n1[1]);
    let cfg = crate::refmodel::tok::Cfg::from_bits(0);
    let mut reader = quick_xml::reader::Reader::verif_from_state(&b"x"[..], 3, 7, 0, cfg.to_real(), ob, os);
    let res = reader.read_event();
    match &res {
        Ok(quick_xml::events::Event::End(e)) => {
            let nm: &[u8] = e;
            assert!(nm.len() == 2, "probe len");
            assert!(nm[0] == n1[0], "probe b0");
            assert!(nm[1] == n1[1], "probe b1");
        }
        _ => assert!(false, "probe kind"),
    }
    core::mem::forget(res);
    core::mem::forget(reader);
}
