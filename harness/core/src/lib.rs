//! Solver-based checking harnesses for quick-xml (default feature set).
//! See /verif/DESIGN.md. `props::*` run the REAL code against small reference machines on one raw
//! input; `table` turns each of them into a Kani proof harness and a native replay entry.
#![allow(clippy::all)]
#![allow(unused_variables, unused_assignments, unused_mut, dead_code)]

pub mod common;
pub mod props;
pub mod refmodel;
pub mod table;
#[cfg(not(kani))]
pub mod validate;
