//! Native-only oracle validation: the reference machines are run against the real code on the
//! repository's own documents/literals. A disagreement here means the ORACLE is broken (or the
//! tree violates a property on a corpus document) and stops the check before any solver verdict is
//! believed. This is a guard against false alarms, not the deciding step of any property.

use crate::refmodel::tok::*;
use quick_xml::errors::{Error, IllFormedError, SyntaxError};
use quick_xml::events::Event;
use quick_xml::reader::Reader;

#[path = "../../../shims/memchr/src/lib.rs"]
#[allow(dead_code)]
mod memchr_shim;

pub const LITERALS: &[&str] = &[
    "", "<", "<a", "<a>", "</a>", "<a/>", "<a></a>", "<a>x</a>", " <a> x </a> ", "<a/ >", "< a>",
    "<!---->", "<!--->", "<!-->", "<!-- a--b -->", "<!-- a- -->", "<!-- a--->", "<![CDATA[]]>", "<![CDATA[]]]]>",
    "<![CDATA[ ]>]]>", "<![CDATA", "<![cdata[x]]>", "<!DOCTYPE a>", "<!doctype  a [<!ENTITY x '>'>]>", "<!DOCTYPE>",
    "<!DOCTYPE >", "<!D>", "<!x>", "<!", "<?", "<?>", "<??>", "<?xml?>", "<?xml ?>", "<?xmlx?>", "<?a b?>x",
    "<a b='>'>", "<a b=\">\">", "<a b='\"'>'>", "</a b='>'>", "<a>\n</a >", "<a></b>", "</b>", "<a/><b/>",
    "\u{feff}<a/>", "\u{feff}", "a<b>c</b>d", "  <a>  ", "<a>  <b/>  </a>", "x", " ", "<a> </a>", "<?xml version='1.0'?><r/>",
    "<a><!-- > --></a>", "<a><![CDATA[>]]></a>", "<a><?p > ?></a>",
];

fn kind_of(e: &Event) -> Kind {
    match e {
        Event::Start(_) => Kind::Start,
        Event::End(_) => Kind::End,
        Event::Empty(_) => Kind::Empty,
        Event::Text(_) => Kind::Text,
        Event::CData(_) => Kind::CData,
        Event::Comment(_) => Kind::Comment,
        Event::PI(_) => Kind::PI,
        Event::Decl(_) => Kind::Decl,
        Event::DocType(_) => Kind::DocType,
        Event::Eof => Kind::Eof,
    }
}

/// Runs the real slice reader and the reference step machine side by side over `doc`.
pub fn validate_doc(doc: &[u8], cfg_bits: u8) -> Result<(), String> {
    let cfg = Cfg::from_bits(cfg_bits);
    let mut reader = Reader::from_reader(doc);
    *reader.config_mut() = cfg.to_real();
    let mut state = ST_INIT;
    let mut pos = 0usize; // index in doc of `rest`
    let mut stack: Vec<Vec<u8>> = Vec::new();
    let mut steps = 0;
    loop {
        steps += 1;
        if steps > 2 * doc.len() + 8 {
            return Err("no termination".into());
        }
        let rest = &doc[pos..];
        let top = Top { name: stack.last().map(|v| &v[..]) };
        let mut want = ref_step(state, &cfg, rest, top);
        let got = reader.read_event();
        if want.empty_text_case {
            // known finding of C16: the real reader emits an empty Text first
            match &got {
                Ok(Event::Text(t)) if t.is_empty() => {
                    // the reference step would go on to the markup; emulate the extra step
                    let lt = rest.iter().position(|b| *b == b'<').unwrap();
                    pos += lt + 1;
                    state = ST_MARKUP;
                    continue;
                }
                _ => {}
            }
            want.empty_text_case = false;
        }
        let where_ = format!("at byte {} state {} (step {})", pos, state, steps);
        match (&got, &want.out) {
            (Ok(e), Out::Event { kind, start, len, name_len }) => {
                if kind_of(e) != *kind {
                    return Err(format!("{}: kind {:?} vs reference {:?}", where_, kind_of(e), kind));
                }
                let c: &[u8] = e;
                if c != &rest[*start..*start + *len] {
                    return Err(format!("{}: content {:?} vs reference {:?}", where_, c, &rest[*start..*start + *len]));
                }
                match e {
                    Event::Start(s) | Event::Empty(s) => {
                        if s.name().as_ref().len() != *name_len {
                            return Err(format!("{}: name_len", where_));
                        }
                    }
                    Event::PI(p) => {
                        if p.target().len() != *name_len {
                            return Err(format!("{}: target len", where_));
                        }
                    }
                    _ => {}
                }
            }
            (Ok(Event::End(e)), Out::EndOfExpanded) => {
                if e.name().as_ref() != &stack.last().unwrap()[..] {
                    return Err(format!("{}: expanded end name", where_));
                }
            }
            (Err(Error::Syntax(g)), Out::Syntax(w)) => {
                let ok = match w {
                    Syn::Any => true,
                    Syn::InvalidBang => *g == SyntaxError::InvalidBangMarkup,
                    Syn::UnclosedPI => *g == SyntaxError::UnclosedPIOrXmlDecl,
                    Syn::UnclosedComment => *g == SyntaxError::UnclosedComment,
                    Syn::UnclosedDoctype => *g == SyntaxError::UnclosedDoctype,
                    Syn::UnclosedCData => *g == SyntaxError::UnclosedCData,
                    Syn::UnclosedTag => *g == SyntaxError::UnclosedTag,
                };
                if !ok {
                    return Err(format!("{}: syntax error {:?} vs reference {:?}", where_, g, w));
                }
                return Ok(());
            }
            (Err(Error::IllFormed(g)), Out::IllFormed { err, .. }) => {
                let ok = matches!(
                    (g, err),
                    (IllFormedError::MissingDoctypeName, Ill::MissingDoctypeName)
                        | (IllFormedError::DoubleHyphenInComment, Ill::DoubleHyphen)
                        | (IllFormedError::MismatchedEndTag { .. }, Ill::Mismatched)
                        | (IllFormedError::UnmatchedEndTag(_), Ill::Unmatched)
                );
                if !ok {
                    return Err(format!("{}: ill-formed {:?} vs reference {:?}", where_, g, err));
                }
            }
            _ => return Err(format!("{}: outcome {:?} vs reference {:?}", where_, got, want.out)),
        }
        match want.stack {
            StackOp::None => {}
            StackOp::Pop => {
                stack.pop();
            }
            StackOp::Push { start, len } => stack.push(rest[start..start + len].to_vec()),
        }
        pos += want.consumed;
        state = want.next_state;
        let real_pos = reader.buffer_position();
        let ref_pos = if state == ST_MARKUP { pos as u64 - 1 } else { pos as u64 };
        if real_pos != ref_pos {
            return Err(format!("{}: position {} vs reference {}", where_, real_pos, ref_pos));
        }
        if let Out::Event { kind: Kind::Eof, .. } = want.out {
            return Ok(());
        }
    }
}

/// The naive memchr model agrees with the real crate on all haystacks up to 6 bytes over a
/// 4-letter alphabet (needles among the letters).
pub fn memchr_selfcheck() {
    let alpha = [b'a', b'<', b'>', b'&'];
    for len in 0..=6usize {
        let total = 4usize.pow(len as u32);
        for code in 0..total {
            let mut h = Vec::with_capacity(len);
            let mut c = code;
            for _ in 0..len {
                h.push(alpha[c % 4]);
                c /= 4;
            }
            assert_eq!(memchr::memchr(b'<', &h), memchr_shim::memchr(b'<', &h));
            assert_eq!(
                memchr::memchr_iter(b'>', &h).collect::<Vec<_>>(),
                memchr_shim::memchr_iter(b'>', &h).collect::<Vec<_>>()
            );
            assert_eq!(
                memchr::memchr2_iter(b'<', b'>', &h).collect::<Vec<_>>(),
                memchr_shim::memchr2_iter(b'<', b'>', &h).collect::<Vec<_>>()
            );
            assert_eq!(
                memchr::memchr3_iter(b'<', b'>', b'&', &h).collect::<Vec<_>>(),
                memchr_shim::memchr3_iter(b'<', b'>', b'&', &h).collect::<Vec<_>>()
            );
        }
    }
}
