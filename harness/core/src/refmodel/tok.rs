//! Reference tokenizer: ONE step of the pull reader, written from the XML 1.1 grammar productions
//! and the documentation of quick-xml's `Config` fields and error enums. Index based, no memchr, no
//! chunk/buffer distinction, no heap.
//!
//! `rest` is the not yet consumed input. In state `InsideMarkup` the `<` has already been consumed,
//! so `rest[0]` is the byte after it.

use crate::common::is_ws;

pub const ST_INIT: u8 = 0;
pub const ST_MARKUP: u8 = 1;
pub const ST_TEXT: u8 = 2;
pub const ST_EMPTY: u8 = 3;
pub const ST_DONE: u8 = 4;

#[derive(Clone, Copy, Debug, PartialEq, Eq)]
pub struct Cfg {
    pub allow_unmatched_ends: bool,
    pub check_comments: bool,
    pub check_end_names: bool,
    pub expand_empty_elements: bool,
    pub trim_markup_names_in_closing_tags: bool,
    pub trim_text_start: bool,
    pub trim_text_end: bool,
}
impl Cfg {
    pub fn from_bits(b: u8) -> Self {
        Cfg {
            allow_unmatched_ends: b & 1 != 0,
            check_comments: b & 2 != 0,
            check_end_names: b & 4 != 0,
            expand_empty_elements: b & 8 != 0,
            trim_markup_names_in_closing_tags: b & 16 != 0,
            trim_text_start: b & 32 != 0,
            trim_text_end: b & 64 != 0,
        }
    }
    /// everything off: the "neutral" settings of C08/C16
    pub fn neutral() -> Self {
        Self::from_bits(0)
    }
    pub fn to_real(&self) -> quick_xml::reader::Config {
        let mut c = quick_xml::reader::Config::default();
        c.allow_unmatched_ends = self.allow_unmatched_ends;
        c.check_comments = self.check_comments;
        c.check_end_names = self.check_end_names;
        c.expand_empty_elements = self.expand_empty_elements;
        c.trim_markup_names_in_closing_tags = self.trim_markup_names_in_closing_tags;
        c.trim_text_start = self.trim_text_start;
        c.trim_text_end = self.trim_text_end;
        c
    }
}

#[derive(Clone, Copy, Debug, PartialEq, Eq)]
pub enum Kind {
    Start,
    End,
    Empty,
    Text,
    CData,
    Comment,
    PI,
    Decl,
    DocType,
    Eof,
}

#[derive(Clone, Copy, Debug, PartialEq, Eq)]
pub enum Syn {
    InvalidBang,
    UnclosedPI,
    UnclosedComment,
    UnclosedDoctype,
    UnclosedCData,
    UnclosedTag,
    /// The input is not the beginning of any construct of the grammar (`<!-x`, `<![x`, `<!Dx`,
    /// `<?>`): the property only says "no event is invented", not which syntax error it is.
    Any,
}

#[derive(Clone, Copy, Debug, PartialEq, Eq)]
pub enum Ill {
    MissingDoctypeName,
    DoubleHyphen,
    /// end name range in `rest`
    Mismatched,
    Unmatched,
}

#[derive(Clone, Copy, Debug, PartialEq, Eq)]
pub enum Out {
    /// `start..start+len`: the content of the event inside `rest`; `name_len`: length of the
    /// name / PI target at the start of the content
    Event {
        kind: Kind,
        start: usize,
        len: usize,
        name_len: usize,
    },
    /// `End` of an expanded empty element: the name is the top of the open-name stack
    EndOfExpanded,
    Syntax(Syn),
    /// for Mismatched/Unmatched `start..start+len` is the name found in the end tag
    IllFormed { err: Ill, start: usize, len: usize },
}

#[derive(Clone, Copy, Debug, PartialEq, Eq)]
pub enum StackOp {
    None,
    /// push `rest[start..start+len]`
    Push { start: usize, len: usize },
    Pop,
}

#[derive(Clone, Copy, Debug, PartialEq, Eq)]
pub struct Step {
    pub out: Out,
    /// bytes of `rest` consumed by this step (including a skipped byte order mark: positions are
    /// byte positions in the input)
    pub consumed: usize,
    /// bytes of a UTF-8 byte order mark skipped at the very start (part of `consumed`)
    pub bom: usize,
    pub next_state: u8,
    pub stack: StackOp,
    /// this step hit the documented-but-unimplemented "whitespace-only text is not pushed" case
    /// (trim_text_end && !trim_text_start, whitespace-only text directly before markup)
    pub empty_text_case: bool,
}

/// Index of the first `>` that is outside of a quoted string, starting outside of quotes.
pub fn find_tag_end(b: &[u8], from: usize) -> Option<usize> {
    let mut q: u8 = 0;
    let mut i = from;
    while i < b.len() {
        let c = b[i];
        if q == 0 {
            if c == b'>' {
                return Some(i);
            }
            if c == b'"' || c == b'\'' {
                q = c;
            }
        } else if c == q {
            q = 0;
        }
        i += 1;
    }
    None
}

/// Smallest `j >= from` with `b[j..j+pat.len()] == pat`
pub fn find_seq(b: &[u8], from: usize, pat: &[u8]) -> Option<usize> {
    let mut j = from;
    while j + pat.len() <= b.len() {
        let mut k = 0;
        let mut ok = true;
        while k < pat.len() {
            if b[j + k] != pat[k] {
                ok = false;
            }
            k += 1;
        }
        if ok {
            return Some(j);
        }
        j += 1;
    }
    None
}

/// Index of the `>` that closes a DOCTYPE: first `>` at nesting level `balance` 0 (`<` opens a
/// nested declaration, `>` closes it).
pub fn find_doctype_end(b: &[u8], from: usize, mut balance: i32) -> (Option<usize>, i32) {
    let mut i = from;
    while i < b.len() {
        if b[i] == b'<' {
            balance += 1;
        } else if b[i] == b'>' {
            if balance == 0 {
                return (Some(i), balance);
            }
            balance -= 1;
        }
        i += 1;
    }
    (None, balance)
}

pub fn starts_with(b: &[u8], p: &[u8]) -> bool {
    if b.len() < p.len() {
        return false;
    }
    let mut i = 0;
    while i < p.len() {
        if b[i] != p[i] {
            return false;
        }
        i += 1;
    }
    true
}

fn starts_with_nocase(b: &[u8], p: &[u8]) -> bool {
    if b.len() < p.len() {
        return false;
    }
    let mut i = 0;
    while i < p.len() {
        if b[i].to_ascii_uppercase() != p[i].to_ascii_uppercase() {
            return false;
        }
        i += 1;
    }
    true
}

/// Length of the name at the start of `b[start..end]`: up to the first XML whitespace
pub fn ref_name_len(b: &[u8], start: usize, end: usize) -> usize {
    let mut i = start;
    while i < end && !is_ws(b[i]) {
        i += 1;
    }
    i - start
}

fn ev(kind: Kind, start: usize, len: usize, name_len: usize) -> Out {
    Out::Event {
        kind,
        start,
        len,
        name_len,
    }
}

fn step(out: Out, consumed: usize, next_state: u8, stack: StackOp) -> Step {
    Step {
        out,
        consumed,
        bom: 0,
        next_state,
        stack,
        empty_text_case: false,
    }
}

/// What is on top of the open-name stack, as far as a step needs to know it
#[derive(Clone, Copy)]
pub struct Top<'a> {
    /// `None`: nothing is open
    pub name: Option<&'a [u8]>,
}

fn bytes_eq(a: &[u8], b: &[u8]) -> bool {
    if a.len() != b.len() {
        return false;
    }
    let mut i = 0;
    while i < a.len() {
        if a[i] != b[i] {
            return false;
        }
        i += 1;
    }
    true
}

/// One step of the reference reader.
pub fn ref_step(state: u8, cfg: &Cfg, rest: &[u8], top: Top) -> Step {
    match state {
        ST_DONE => step(ev(Kind::Eof, 0, 0, 0), 0, ST_DONE, StackOp::None),
        ST_EMPTY => step(Out::EndOfExpanded, 0, ST_TEXT, StackOp::Pop),
        ST_INIT => {
            // a UTF-8 byte order mark is not part of the document
            let bom = if starts_with(rest, &[0xEF, 0xBB, 0xBF]) { 3 } else { 0 };
            let mut s = text_step(cfg, rest, bom, top);
            s.bom = bom;
            s
        }
        ST_TEXT => text_step(cfg, rest, 0, top),
        _ => markup_step(cfg, rest, 0, top),
    }
}

fn text_step(cfg: &Cfg, rest: &[u8], from: usize, top: Top) -> Step {
    let mut p = from;
    if cfg.trim_text_start {
        while p < rest.len() && is_ws(rest[p]) {
            p += 1;
        }
    }
    // character data runs up to the next `<`
    let mut lt = p;
    while lt < rest.len() && rest[lt] != b'<' {
        lt += 1;
    }
    let mut end = lt;
    if cfg.trim_text_end {
        while end > p && is_ws(rest[end - 1]) {
            end -= 1;
        }
    }
    if lt == rest.len() {
        // text up to the end of input
        return if end == p {
            step(ev(Kind::Eof, 0, 0, 0), lt, ST_DONE, StackOp::None)
        } else {
            step(ev(Kind::Text, p, end - p, 0), lt, ST_DONE, StackOp::None)
        };
    }
    if lt == p {
        // no character data: the markup is this step's event
        return markup_step(cfg, rest, lt + 1, top);
    }
    if end == p {
        // Only whitespace that is trimmed away. `Config::trim_text_end` says: "If after that the
        // event is empty it will not be pushed", so the documented event of this step is the
        // markup that follows.
        let mut s = markup_step(cfg, rest, lt + 1, top);
        s.empty_text_case = true;
        return s;
    }
    step(ev(Kind::Text, p, end - p, 0), lt + 1, ST_MARKUP, StackOp::None)
}

/// `m` is the index in `rest` of the first byte after `<`
fn markup_step(cfg: &Cfg, rest: &[u8], m: usize, top: Top) -> Step {
    if m >= rest.len() {
        return step(Out::Syntax(Syn::UnclosedTag), rest.len(), ST_DONE, StackOp::None);
    }
    let all = rest.len();
    match rest[m] {
        b'!' => {
            let r = &rest[m..];
            if r.len() < 2 {
                return step(Out::Syntax(Syn::InvalidBang), m, ST_DONE, StackOp::None);
            }
            match r[1] {
                b'-' => {
                    if !starts_with(r, b"!--") {
                        // `<!-x`: not a comment open
                        return step(Out::Syntax(Syn::Any), all, ST_DONE, StackOp::None);
                    }
                    // Comment ::= '<!--' ... '-->' ; the closing '--' may not overlap the opening
                    match find_seq(r, 3, b"-->") {
                        None => step(Out::Syntax(Syn::UnclosedComment), all, ST_DONE, StackOp::None),
                        Some(j) => {
                            let consumed = m + j + 3;
                            if cfg.check_comments {
                                // `--` inside the comment, or the comment ends with `--->`
                                let dh = find_seq(&r[..j + 1], 3, b"--");
                                if dh.is_some() {
                                    return step(
                                        Out::IllFormed {
                                            err: Ill::DoubleHyphen,
                                            start: m + dh.unwrap(),
                                            len: 2,
                                        },
                                        consumed,
                                        ST_TEXT,
                                        StackOp::None,
                                    );
                                }
                            }
                            step(ev(Kind::Comment, m + 3, j - 3, 0), consumed, ST_TEXT, StackOp::None)
                        }
                    }
                }
                b'[' => {
                    if r.len() >= 8 && !starts_with(r, b"![CDATA[") {
                        return step(Out::Syntax(Syn::Any), all, ST_DONE, StackOp::None);
                    }
                    if r.len() < 8 {
                        // input stops inside `<![CDATA[` (if it is one at all)
                        return step(
                            Out::Syntax(if starts_with(b"![CDATA[", r) {
                                Syn::UnclosedCData
                            } else {
                                Syn::Any
                            }),
                            all,
                            ST_DONE,
                            StackOp::None,
                        );
                    }
                    match find_seq(r, 8, b"]]>") {
                        None => step(Out::Syntax(Syn::UnclosedCData), all, ST_DONE, StackOp::None),
                        Some(j) => step(ev(Kind::CData, m + 8, j - 8, 0), m + j + 3, ST_TEXT, StackOp::None),
                    }
                }
                b'D' | b'd' => {
                    let (end, _) = find_doctype_end(r, 1, 0);
                    match end {
                        None => {
                            // input stops inside the declaration
                            let is_doctype = if r.len() >= 8 {
                                starts_with_nocase(r, b"!DOCTYPE")
                            } else {
                                starts_with_nocase(b"!DOCTYPE", r)
                            };
                            step(
                                Out::Syntax(if is_doctype { Syn::UnclosedDoctype } else { Syn::Any }),
                                all,
                                ST_DONE,
                                StackOp::None,
                            )
                        }
                        Some(j) => {
                            if !starts_with_nocase(&r[..j], b"!DOCTYPE") {
                                // `<!Dxyz>`: some other declaration, nothing this reader knows
                                return step(Out::Syntax(Syn::Any), m + j + 1, ST_DONE, StackOp::None);
                            }
                            let mut s = 8;
                            while s < j && is_ws(r[s]) {
                                s += 1;
                            }
                            if s == j {
                                return step(
                                    Out::IllFormed {
                                        err: Ill::MissingDoctypeName,
                                        start: m + j,
                                        len: 0,
                                    },
                                    m + j + 1,
                                    ST_TEXT,
                                    StackOp::None,
                                );
                            }
                            step(ev(Kind::DocType, m + s, j - s, 0), m + j + 1, ST_TEXT, StackOp::None)
                        }
                    }
                }
                _ => step(Out::Syntax(Syn::InvalidBang), m, ST_DONE, StackOp::None),
            }
        }
        b'/' => match find_tag_end(rest, m) {
            None => step(Out::Syntax(Syn::UnclosedTag), all, ST_DONE, StackOp::None),
            Some(j) => {
                let start = m + 1;
                let mut end = j;
                if cfg.trim_markup_names_in_closing_tags {
                    let mut e = j;
                    while e > start && is_ws(rest[e - 1]) {
                        e -= 1;
                    }
                    // a name consisting of whitespace only is left as it is
                    if e > start {
                        end = e;
                    }
                }
                let consumed = j + 1;
                match top.name {
                    Some(expected) => {
                        if cfg.check_end_names && !bytes_eq(expected, &rest[start..end]) {
                            return step(
                                Out::IllFormed {
                                    err: Ill::Mismatched,
                                    start,
                                    len: end - start,
                                },
                                consumed,
                                ST_TEXT,
                                StackOp::Pop,
                            );
                        }
                        step(ev(Kind::End, start, end - start, end - start), consumed, ST_TEXT, StackOp::Pop)
                    }
                    None => {
                        if !cfg.allow_unmatched_ends {
                            return step(
                                Out::IllFormed {
                                    err: Ill::Unmatched,
                                    start,
                                    len: end - start,
                                },
                                consumed,
                                ST_TEXT,
                                StackOp::None,
                            );
                        }
                        step(ev(Kind::End, start, end - start, end - start), consumed, ST_TEXT, StackOp::None)
                    }
                }
            }
        },
        b'?' => {
            let r = &rest[m..];
            if starts_with(r, b"?>") {
                // `<?>`: neither a PI (`<?` target `?>`) nor anything else
                return step(Out::Syntax(Syn::Any), m + 2, ST_DONE, StackOp::None);
            }
            match find_seq(r, 1, b"?>") {
                None => step(Out::Syntax(Syn::UnclosedPI), all, ST_DONE, StackOp::None),
                Some(j) => {
                    let cs = m + 1;
                    let clen = j - 1;
                    let consumed = m + j + 2;
                    let c = &rest[cs..cs + clen];
                    // XMLDecl ::= '<?xml' S ... ; a target merely starting with `xml` is a PI
                    if starts_with(c, b"xml") && (clen == 3 || is_ws(c[3])) {
                        step(ev(Kind::Decl, cs, clen, 3), consumed, ST_TEXT, StackOp::None)
                    } else {
                        step(
                            ev(Kind::PI, cs, clen, ref_name_len(rest, cs, cs + clen)),
                            consumed,
                            ST_TEXT,
                            StackOp::None,
                        )
                    }
                }
            }
        }
        _ => match find_tag_end(rest, m) {
            None => step(Out::Syntax(Syn::UnclosedTag), all, ST_DONE, StackOp::None),
            Some(j) => {
                let consumed = j + 1;
                if j > m && rest[j - 1] == b'/' {
                    // EmptyElemTag
                    let len = j - 1 - m;
                    let nl = ref_name_len(rest, m, m + len);
                    if cfg.expand_empty_elements {
                        step(ev(Kind::Start, m, len, nl), consumed, ST_EMPTY, StackOp::Push { start: m, len: nl })
                    } else {
                        step(ev(Kind::Empty, m, len, nl), consumed, ST_TEXT, StackOp::None)
                    }
                } else {
                    let len = j - m;
                    let nl = ref_name_len(rest, m, m + len);
                    step(ev(Kind::Start, m, len, nl), consumed, ST_TEXT, StackOp::Push { start: m, len: nl })
                }
            }
        },
    }
}
