//! Reference attribute scanner: ONE `next()` of the attribute iterator, written from the
//! documentation of `Attributes`, `Attr` and each `AttrError` variant (they state the error
//! position and the recovery position with worked examples).

use crate::common::is_ws;

pub const END: usize = usize::MAX;

#[derive(Clone, Copy, Debug, PartialEq, Eq)]
pub enum Item {
    /// iteration is over
    None,
    /// key range, value range (`has_value = false`: HTML key-only attribute)
    Attr { ks: usize, ke: usize, vs: usize, ve: usize, has_value: bool },
    ExpectedEq(usize),
    ExpectedValue(usize),
    UnquotedValue(usize),
    ExpectedQuote(usize, u8),
    Duplicated(usize, usize),
}

pub fn skip_ws(b: &[u8], mut p: usize) -> usize {
    if p == END {
        return END;
    }
    while p < b.len() && is_ws(b[p]) {
        p += 1;
    }
    if p >= b.len() {
        END
    } else {
        p
    }
}

/// first whitespace at or after `p`, or END
pub fn to_ws(b: &[u8], mut p: usize) -> usize {
    while p < b.len() && !is_ws(b[p]) {
        p += 1;
    }
    if p >= b.len() {
        END
    } else {
        p
    }
}

/// Documented recovery after `Duplicated`: the value that follows the `=` at `eq` is skipped as a
/// whole ("recovery position" in the `AttrError::Duplicated` example is the start of the next
/// attribute, after the closing quote of the skipped value).
pub fn after_value(b: &[u8], eq: usize) -> usize {
    let v = skip_ws(b, eq + 1);
    if v == END {
        return END;
    }
    let q = b[v];
    if q == b'"' || q == b'\'' {
        let mut c = v + 1;
        while c < b.len() && b[c] != q {
            c += 1;
        }
        if c >= b.len() {
            END
        } else {
            skip_ws(b, c + 1)
        }
    } else {
        skip_ws(b, to_ws(b, v))
    }
}

/// Normal form of an iterator state: index of the first byte of the next key, or END.
/// `code`: 0 Done, 1 Next(o), 2 SkipValue(o) (o = start of an unquoted value), 3 SkipEqValue(o) (o = the `=`)
pub fn normal_form(b: &[u8], code: u8, o: usize) -> usize {
    match code {
        0 => END,
        1 => skip_ws(b, o),
        2 => skip_ws(b, to_ws(b, o)),
        _ => after_value(b, o),
    }
}

fn same(b: &[u8], a0: usize, a1: usize, c0: usize, c1: usize) -> bool {
    if a1 - a0 != c1 - c0 {
        return false;
    }
    let mut i = 0;
    while i < a1 - a0 {
        if b[a0 + i] != b[c0 + i] {
            return false;
        }
        i += 1;
    }
    true
}

/// One step from normal-form position `pos`. `keys[..nkeys]`: ranges of the keys seen so far.
/// Returns the item, the normal form of the successor position and whether the key was recorded.
pub fn ref_attr_next<const K: usize>(
    b: &[u8],
    pos: usize,
    html: bool,
    check: bool,
    keys: &[(usize, usize); K],
    nkeys: usize,
) -> (Item, usize, bool) {
    let len = b.len();
    if pos == END || pos >= len {
        return (Item::None, END, false);
    }
    let s = pos;
    // the key runs up to `=`, whitespace or the end
    let mut e = s + 1;
    while e < len && b[e] != b'=' && !is_ws(b[e]) {
        e += 1;
    }
    let dup = |ks: usize, ke: usize| -> Option<usize> {
        if !check {
            return None;
        }
        let mut k = 0;
        while k < K {
            if k < nkeys && same(b, keys[k].0, keys[k].1, ks, ke) {
                return Some(keys[k].0);
            }
            k += 1;
        }
        None
    };
    let key_only = |o: usize, next: usize| -> (Item, usize, bool) {
        if html {
            match dup(s, e) {
                Some(prev) => (Item::Duplicated(s, prev), next, false),
                None => (Item::Attr { ks: s, ke: e, vs: 0, ve: 0, has_value: false }, next, check),
            }
        } else {
            (Item::ExpectedEq(o), next, false)
        }
    };
    if e >= len {
        return key_only(len, END);
    }
    let eq;
    if b[e] == b'=' {
        eq = e;
    } else {
        let o = skip_ws(b, e);
        if o == END {
            return key_only(len, END);
        }
        if b[o] != b'=' {
            return key_only(o, o);
        }
        eq = o;
    }
    if let Some(prev) = dup(s, e) {
        return (Item::Duplicated(s, prev), after_value(b, eq), false);
    }
    let v = skip_ws(b, eq + 1);
    if v == END {
        return (Item::ExpectedValue(len), END, check);
    }
    let q = b[v];
    if q == b'"' || q == b'\'' {
        let mut c = v + 1;
        while c < len && b[c] != q {
            c += 1;
        }
        if c >= len {
            return (Item::ExpectedQuote(len, q), END, check);
        }
        (Item::Attr { ks: s, ke: e, vs: v + 1, ve: c, has_value: true }, skip_ws(b, c + 1), check)
    } else if html {
        let w = to_ws(b, v);
        let ve = if w == END { len } else { w };
        (Item::Attr { ks: s, ke: e, vs: v, ve, has_value: true }, skip_ws(b, w), check)
    } else {
        (Item::UnquotedValue(v), skip_ws(b, to_ws(b, v)), check)
    }
}
