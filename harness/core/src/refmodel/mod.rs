pub mod tok;
