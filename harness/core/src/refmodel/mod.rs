pub mod tok;
pub mod attr;
