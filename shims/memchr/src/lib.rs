//! Naive, loop-per-byte model of the subset of the `memchr` API that quick-xml uses.
//!
//! Contract (from the memchr documentation): `memchrN(needles.., haystack)` returns the index of
//! the first byte of `haystack` equal to one of the needles; the `_iter` variants yield all such
//! indices in ascending order.
//!
//! The model is differentially tested against the real crate at setup time
//! (`/verif/harness/native`, test `memchr_shim_matches_real`).


#[inline]
pub fn memchr(n1: u8, haystack: &[u8]) -> Option<usize> {
    let mut i = 0;
    while i < haystack.len() {
        if haystack[i] == n1 {
            return Some(i);
        }
        i += 1;
    }
    None
}

#[inline]
pub fn memchr2(n1: u8, n2: u8, haystack: &[u8]) -> Option<usize> {
    let mut i = 0;
    while i < haystack.len() {
        let b = haystack[i];
        if b == n1 || b == n2 {
            return Some(i);
        }
        i += 1;
    }
    None
}

#[inline]
pub fn memchr3(n1: u8, n2: u8, n3: u8, haystack: &[u8]) -> Option<usize> {
    let mut i = 0;
    while i < haystack.len() {
        let b = haystack[i];
        if b == n1 || b == n2 || b == n3 {
            return Some(i);
        }
        i += 1;
    }
    None
}

#[inline]
pub fn memrchr(n1: u8, haystack: &[u8]) -> Option<usize> {
    let mut i = haystack.len();
    while i > 0 {
        i -= 1;
        if haystack[i] == n1 {
            return Some(i);
        }
    }
    None
}

#[derive(Clone, Debug)]
pub struct Memchr<'h> {
    n1: u8,
    hay: &'h [u8],
    pos: usize,
}

impl<'h> Iterator for Memchr<'h> {
    type Item = usize;
    #[inline]
    fn next(&mut self) -> Option<usize> {
        while self.pos < self.hay.len() {
            let i = self.pos;
            self.pos += 1;
            if self.hay[i] == self.n1 {
                return Some(i);
            }
        }
        None
    }
}

#[derive(Clone, Debug)]
pub struct Memchr2<'h> {
    n1: u8,
    n2: u8,
    hay: &'h [u8],
    pos: usize,
}

impl<'h> Iterator for Memchr2<'h> {
    type Item = usize;
    #[inline]
    fn next(&mut self) -> Option<usize> {
        while self.pos < self.hay.len() {
            let i = self.pos;
            self.pos += 1;
            let b = self.hay[i];
            if b == self.n1 || b == self.n2 {
                return Some(i);
            }
        }
        None
    }
}

#[derive(Clone, Debug)]
pub struct Memchr3<'h> {
    n1: u8,
    n2: u8,
    n3: u8,
    hay: &'h [u8],
    pos: usize,
}

impl<'h> Iterator for Memchr3<'h> {
    type Item = usize;
    #[inline]
    fn next(&mut self) -> Option<usize> {
        while self.pos < self.hay.len() {
            let i = self.pos;
            self.pos += 1;
            let b = self.hay[i];
            if b == self.n1 || b == self.n2 || b == self.n3 {
                return Some(i);
            }
        }
        None
    }
}

#[inline]
pub fn memchr_iter(n1: u8, haystack: &[u8]) -> Memchr<'_> {
    Memchr { n1, hay: haystack, pos: 0 }
}

#[inline]
pub fn memchr2_iter(n1: u8, n2: u8, haystack: &[u8]) -> Memchr2<'_> {
    Memchr2 { n1, n2, hay: haystack, pos: 0 }
}

#[inline]
pub fn memchr3_iter(n1: u8, n2: u8, n3: u8, haystack: &[u8]) -> Memchr3<'_> {
    Memchr3 { n1, n2, n3, hay: haystack, pos: 0 }
}
